package http2

// C14 — HTTP/2 request/response exchange is delivered faithfully end to end.
//
// A real Transport connection (ConfigureTransports + Transport.NewClientConn +
// ClientConn.RoundTrip) talks to a real Server.ServeConn over an in-memory
// connection inside a testing/synctest bubble, one fresh pair per case. The
// handler records exactly what it received and sends the response the case
// prescribes; the client records exactly what it received; both are compared
// with what the other side handed to the library.

import (
	"fmt"
	"testing"

	"golang.org/x/net/internal/zzverif/vx"
)

// c14Scenario is a base exchange for the short-read enumeration, with the
// number of read indices per direction that are enumerated.
type c14Scenario struct {
	name     string
	x        c14Case
	c2s, s2c int
}

func c14Base() c14Case {
	return c14Case{
		SFrame: 16384, SWin: 1 << 20, SConn: 1 << 20, STbl: 4096,
		CFrame: 16384, CWin: 4 << 20, CTbl: 4096,
		Method: "POST", Path: 1, ReqHdr: 1, ReqBody: 1000, ReqDecl: true,
		Status: 200, ResHdr: 1, ResBody: 1000,
	}
}

func c14Scenarios() []c14Scenario {
	var out []c14Scenario
	add := func(name string, c2s, s2c int, f func(x *c14Case)) {
		x := c14Base()
		f(&x)
		out = append(out, c14Scenario{name, x, c2s, s2c})
	}
	add("plain-post", 24, 12, func(x *c14Case) {})
	add("continuation-trailers", 40, 20, func(x *c14Case) {
		x.ReqHdr, x.ResHdr = 2, 2
		x.ReqBody, x.ReqDecl, x.ReqChunk, x.ReqTrl = 300, false, 100, 20
		x.ResBody, x.ResChunk, x.ResFlush, x.ResTrl = 300, 100, true, 20
	})
	add("head-many-fields", 24, 12, func(x *c14Case) {
		x.Method, x.ReqHdr, x.ResHdr, x.ReqBody, x.ResBody, x.ResDecl = "HEAD", 3, 3, 0, 5000, true
	})
	add("get-103-two-data-frames", 24, 20, func(x *c14Case) {
		x.Method, x.ReqBody, x.Info, x.ResBody, x.ResTrl, x.CFrame = "GET", 0, true, 16385, -1, 1<<24-1
	})
	add("tiny-windows", 48, 24, func(x *c14Case) {
		x.SWin, x.ReqBody, x.ReqDecl, x.CWin, x.ResBody = 1, 4, false, 1, 3
	})
	add("early-request", 24, 12, func(x *c14Case) {
		x.Early, x.ReqTrl, x.ResTrl = true, 1, 1
	})
	add("headers-first-duplex", 40, 20, func(x *c14Case) {
		x.Order, x.ReqBody, x.ReqChunk, x.SWin, x.ReqTrl, x.ResBody = 1, 250, 100, 100, 1, 20000
	})
	// header blocks that end their stream and need CONTINUATION, in both
	// directions: request trailers / the header block of a bodyless response,
	// and the header block of a bodyless request / response trailers
	add("end-stream-blocks-continued-a", 40, 20, func(x *c14Case) {
		x.ReqBody, x.ReqDecl, x.ReqTrl, x.ReqTrlPad, x.ResBody, x.ResPad = 300, false, 1, 17000, 0, 17000
	})
	add("end-stream-blocks-continued-b", 40, 20, func(x *c14Case) {
		x.Method, x.ReqBody, x.ReqPad, x.ResBody, x.ResTrl, x.ResTrlPad = "GET", 0, 17000, 300, 1, 17000
	})
	return out
}

// c14BlockShape is a position of the padded header block in the exchange for
// the header-block-boundary part.
type c14BlockShape struct {
	Name      string
	Res       bool // the block travels server to client
	Trailer   bool // the block is the trailer block (second block of its direction)
	EndStream bool // the block's HEADERS frame carries END_STREAM
	set       func(x *c14Case, n int)
}

func c14BlockShapes(wide bool) []c14BlockShape {
	out := []c14BlockShape{
		// request header block of a request without body: HEADERS carries END_STREAM
		{"req-headers-no-body", false, false, true, func(x *c14Case, n int) { x.ReqPad = n }},
		// request header block followed by DATA
		{"req-headers-then-body", false, false, false, func(x *c14Case, n int) { x.Method, x.ReqBody, x.ReqPad = "POST", 5, n }},
		// request trailer block
		{"req-trailers", false, true, true, func(x *c14Case, n int) { x.Method, x.ReqBody, x.ReqDecl, x.ReqTrlPad = "POST", 5, false, n }},
		// response header block followed by DATA
		{"res-headers-then-body", true, false, false, func(x *c14Case, n int) { x.ResPad = n }},
		// response header blocks that end the stream: the handler writes nothing,
		// a status without content, the answer to HEAD
		{"res-headers-no-body", true, false, true, func(x *c14Case, n int) { x.ResBody, x.ResPad = 0, n }},
		{"res-headers-204", true, false, true, func(x *c14Case, n int) { x.Status, x.ResBody, x.ResPad = 204, 0, n }},
		{"res-headers-head", true, false, true, func(x *c14Case, n int) { x.Method, x.ResPad = "HEAD", n }},
		// response trailer block, declared in advance
		{"res-trailers", true, true, true, func(x *c14Case, n int) { x.ResTrlPad = n }},
	}
	if wide {
		out = append(out,
			c14BlockShape{"res-headers-304", true, false, true, func(x *c14Case, n int) { x.Status, x.ResBody, x.ResPad = 304, 0, n }},
			// response trailer block set through http.TrailerPrefix, after flushed body writes
			c14BlockShape{"res-trailers-prefix-flushed", true, true, true, func(x *c14Case, n int) { x.ResTrl, x.ResFlush, x.ResTrlPad = -1, true, n }},
			// request trailers while the response is already under way
			c14BlockShape{"req-trailers-duplex", false, true, true, func(x *c14Case, n int) {
				x.Method, x.ReqBody, x.ReqDecl, x.ReqTrlPad, x.Order = "POST", 5, false, n, 1
			}},
		)
	}
	return out
}

func c14Outcome(x *c14Case, st *c14Stats) string {
	cls := func(n int) string {
		switch {
		case n == 0:
			return "0"
		case n <= 16384:
			return "<=frame"
		default:
			return ">frame"
		}
	}
	cont := ""
	if st.c2s.types[FrameContinuation] > 0 {
		cont += " req-continuation"
	}
	if st.s2c.types[FrameContinuation] > 0 {
		cont += " res-continuation"
	}
	// a header block that ends the stream and does not fit one frame
	if st.c2s.endStreamC > 0 {
		cont += " req-end-stream-block-continued"
	}
	if st.s2c.endStreamC > 0 {
		cont += " res-end-stream-block-continued"
	}
	return fmt.Sprintf("%s %d req=%s res=%s trl=%v/%v%s", x.Method, x.Status, cls(x.ReqBody), cls(x.ResBody), x.ReqTrl != 0, x.ResTrl != 0, cont)
}

func c14Check(w *vx.W, x c14Case) {
	st, ok := c14Run(w, x)
	if !ok {
		return
	}
	w.Nontrivial()
	w.Outcome(c14Outcome(&x, &st))
	w.Distinct(fmt.Sprintf("%s|%s", st.c2s.trace, st.s2c.trace))
}

func TestVerif_C14(t *testing.T) {
	vx.Run(t, "C14", func(c *vx.Ctx) {
		wide := !c.Quick()
		// http2_test.go switches on the goroutine-ownership debug assertions,
		// which parse a stack trace on every call (3/4 of the run time); they
		// are a development aid and not part of the behaviour under test.
		prevDbg := disableDebugGoroutines.Load()
		disableDebugGoroutines.Store(true)
		defer disableDebugGoroutines.Store(prevDbg)
		c.Rule("a case = SETTINGS configuration (server/client max frame size, stream and connection windows, header table sizes, write scheduler, request before/after the SETTINGS exchange) x request shape (method, path, header set, body length, declared/undeclared length, body Read chunking, trailers incl. a trailer block > 16 kB that needs CONTINUATION) x response shape (status, 103, header set, body length, declared length, Write chunking, Flush, declared / TrailerPrefix trailers incl. a trailer block > 16 kB, handler order); header set 2 really exceeds one frame after Huffman coding, so the pairs with bodyless messages (HEAD, 204, 304, empty body) put HEADERS(END_STREAM)+CONTINUATION on the wire; parts: 'cover' = covering array of strength 2 (thorough: 3) over all 27 dimensions; 'request-product', 'response-product', 'header-product' = full products of the dimensions that interact in one direction; 'header-block-boundary' = for every position a header block can take (request headers of a bodyless request / followed by a body, request trailers, response headers followed by a body / of a response whose handler writes nothing / 204 / to HEAD, declared response trailers; thorough: and 304, TrailerPrefix trailers after flushed writes, request trailers sent while the response is under way) the block's encoded length is swept byte by byte from about 160 below to at least 8 above 16384 (thorough: and 32768, and with 16 MB frames allowed), the observed block lengths at distance <= 2 of the boundary and whether a HEADERS frame carried END_STREAM without END_HEADERS are recorded as outcomes; 'short-read' = base scenarios x every placement of <= 1 (thorough: <= 2) short reads (1 or 7 bytes) at every read index of either direction; 'graceful-goaway' = full product of {what makes the server send GOAWAY(NO_ERROR): http.Server.Shutdown / Server.IdleTimeout expiring} x {the request's HEADERS frame and everything after it is still unread by the server when it sends the GOAWAY, so the last-stream-id is below the request's stream / the handler is already running, the last-stream-id covers the stream} x {the request is stream 1 of a new connection / stream 3 after a completed exchange} x {no body / one-shot body (io.ReadCloser, no Request.GetBody, Close does not disturb later Reads) / the same with GetBody} x {which of the body's Read calls 0..3 (3 chunks, then EOF) is the one that returns only after the GOAWAY has reached the Transport, or none} x declared/undeclared length x trailers {0, 1; thorough: 20} x {250-byte body under a 1 MB window / 70001-byte body over a 65535-byte window, i.e. the Transport also waits for flow control}; here the client is Transport.RoundTrip with its own connection pool dialling up to 3 in-memory connections, each to a fresh Server instance with the same handler, so the Transport's retry on a new connection is inside the explored space; 'connection-window-history' = histories of sequential exchanges on ONE connection: full product of {the bytes travel in request bodies, the server's connection window is the bound (Server.MaxUploadBufferPerConnection) / in response bodies, the client's connection window} x {connection window 65535, the smallest a Server accepts; thorough: and 131071} x {k = 1..4 (thorough 8) bodies, as equal as possible} x {their total = window-1, window, window+1; response bodies also window+65535-1, +65535, +65535+1 because the Transport announces its configured window on top of the initial 65535} x {the receiver allows 1 MB frames, so each body arrives in one DATA frame / 16384} x {declared / undeclared length} x {response bodies: read by io.ReadAll / by Read calls on a 1 MB buffer, which take a whole body at once} followed by two more exchanges with a body of 1 byte (thorough: and of 21845 bytes); every body is read to the end, stream windows are large, and each exchange of the history is held to the per-exchange oracle (a request that is never delivered is the hang clause). non-trivial = the exchange completed and all request and response observations were compared; distinct = distinct frame-type traces on the wire (both directions), distinct header block lengths, distinct truncating short-read placements")
		c.Assume("excluded from the domain: request trailers without a request body stream; handlers that answer with a status > 299 before reading the request body (the Transport then stops sending the body by documented heuristic); 204/304 with content; bodies that would need more than 4000 window refills (1-byte windows with large bodies: cost); Expect: 100-continue, CONNECT, hop-by-hop fields, gzip (DisableCompression), Transfer-Encoding, Host/Priority/Trailer/Te fields set by the application; server push; concurrent requests on one connection (see C08-C11, C15, C17); the deprecated RFC 7540 scheduler in the two situations where the server resets the stream mid-handler (C12 finding crashes the server there)")
		c.Assume("allow-list of fields the libraries add: request User-Agent default and Content-Length (must equal the body length); response Date (any value) and Content-Length (must equal the number of bytes the handler wrote); Content-Type sniffing is avoided by always setting Content-Type; HEAD responses carry neither body nor trailers; values of one field name are compared in order, different names as a multiset; names are compared after net/http canonicalisation")
		c.Assume("part 'graceful-goaway': oracle = every handler invocation (on whichever connection) that read a request body to a clean EOF observed exactly the request that was sent; a stream the GOAWAY covers completes with the faithful response; a stream above the last-stream-id ends in a faithful exchange on another connection or in a RoundTrip error (whether it must be retried is C18's subject, duplicates too); no hang. Not covered: GOAWAY with an error code, GOAWAY caused by a handler's 'Connection: close' (needs concurrent requests to race), client windows other than the defaults, more than one GOAWAY-struck connection per request")
		c.Assume("part 'connection-window-history': the cumulative byte count is enumerated at the smallest connection windows only (a loss of credit per exchange that needs a history longer than k+2 exchanges or a total other than window-1/window/window+1 to stall the connection is outside the bound); bodies not read to the end by the receiver and concurrent streams sharing the connection window are C09/C10's subject")
		c.Assume("goroutine schedules are those the Go scheduler produces with GOMAXPROCS=1 inside the bubble plus the variations induced by Early and by short reads; no preemption points inside library calls are enumerated")

		dims := c14Dims(wide)
		names := map[string]int{}
		for i, d := range dims {
			names[d.name] = i
		}

		// ---- covering array over all dimensions
		var covered, excluded, rows int
		strength := vx.Pick(c, 2, 3)
		vx.Enumerate(c, "cover", vx.Opts{Serial: true, Crumb: true}, func(yield func(c14Case) bool) {
			covered, excluded, rows = c14Cover(dims, strength, func(row []int) bool {
				return yield(c14Build(dims, row))
			})
		}, c14Check)
		if !c.Replaying() {
			c.Note("cover.strength", strength)
			c.Note("cover.rows", rows)
			c.Note("cover.value_tuples_covered", covered)
			c.Note("cover.value_tuples_excluded_as_invalid", excluded)
		}

		// ---- full products
		product := func(part string, base c14Case, vary []string) {
			vx.Enumerate(c, part, vx.Opts{Serial: true, Crumb: true}, func(yield func(c14Case) bool) {
				idx := make([]int, len(vary))
				for {
					x := base
					for k, name := range vary {
						dims[names[name]].set(&x, idx[k])
					}
					if c14Invalid(&x) == "" {
						if !yield(x) {
							return
						}
					}
					k := len(vary) - 1
					for k >= 0 {
						idx[k]++
						if idx[k] < dims[names[vary[k]]].n {
							break
						}
						idx[k] = 0
						k--
					}
					if k < 0 {
						return
					}
				}
			}, c14Check)
		}
		rq := c14Base()
		rq.ResBody = 10
		reqVary := []string{"s_frame", "s_win", "req_decl", "req_chunk", "req_trl", "early", "req_body"}
		if wide {
			reqVary = append([]string{"order", "s_conn"}, reqVary...)
		}
		product("request-product", rq, reqVary)

		rs := c14Base()
		rs.Method, rs.ReqBody = "GET", 0
		resVary := []string{"c_frame", "c_win", "res_decl", "res_chunk", "res_flush", "res_trl", "res_body"}
		if wide {
			resVary = append([]string{"info", "c_conn"}, resVary...)
		}
		product("response-product", rs, resVary)

		hd := c14Base()
		hd.ReqBody, hd.ReqDecl, hd.ResBody, hd.Repeat = 10, false, 10, 2
		hdrVary := []string{"early", "c_tbl", "s_tbl", "req_trl", "res_trl", "req_hdr", "res_hdr"}
		product("header-product", hd, hdrVary)

		// ---- header block length swept across the frame-size boundaries, for
		// every position a header block can take in a message: the header
		// block of a message with a body (END_STREAM comes later, on DATA or
		// trailers), the header block of a bodyless message (HEADERS carries
		// END_STREAM itself), and the trailer block (always END_STREAM)
		shapes := c14BlockShapes(wide)
		shapeByName := map[string]c14BlockShape{}
		for _, sh := range shapes {
			shapeByName[sh.Name] = sh
		}
		type blockCase struct {
			Shape string `json:"block_shape"`
			Big   bool   `json:"max_frame_size_16m"`
			Pad   int    `json:"pad_field_len"`
		}
		vx.Enumerate(c, "header-block-boundary", vx.Opts{Serial: true, Crumb: true}, func(yield func(blockCase) bool) {
			for _, sh := range shapes {
				for _, big := range vx.Pick(c, []bool{false}, []bool{false, true}) {
					for k := 1; k <= vx.Pick(c, 1, 2); k++ {
						for n := k*16384 - 160; n <= k*16384+8; n++ {
							if !yield(blockCase{sh.Name, big, n}) {
								return
							}
						}
					}
				}
			}
		}, func(w *vx.W, bc blockCase) {
			sh, ok := shapeByName[bc.Shape]
			if !ok {
				panic("c14: unknown block shape " + bc.Shape)
			}
			x := c14Base()
			x.Method, x.ReqBody, x.ReqHdr, x.ResHdr, x.ResBody = "GET", 0, 0, 0, 5
			if bc.Big {
				x.SFrame, x.CFrame = 1<<24-1, 1<<24-1
			}
			sh.set(&x, bc.Pad)
			if why := c14Invalid(&x); why != "" {
				panic("c14: block shape " + bc.Shape + " outside the domain: " + why)
			}
			st, ok := c14Run(w, x)
			if !ok {
				return
			}
			w.Nontrivial()
			wire := &st.c2s
			if sh.Res {
				wire = &st.s2c
			}
			blk, wantBlocks := wire.firstBlock, 1
			if sh.Trailer {
				blk, wantBlocks = wire.lastBlock, 2
			}
			if wire.blocks != wantBlocks {
				// the measured block is not the padded one
				w.Outcome(fmt.Sprintf("header-block %s: %d header blocks on the wire, expected %d", bc.Shape, wire.blocks, wantBlocks))
				return
			}
			cls := "away-from-boundary"
			for k := 1; k <= 2; k++ {
				if d := blk - k*16384; d >= -2 && d <= 2 {
					cls = fmt.Sprintf("%dx16384%+d", k, d)
				}
			}
			w.Outcome(fmt.Sprintf("header-block %s big-frames=%v %s end-stream-block-continued=%v", bc.Shape, bc.Big, cls, wire.endStreamC > 0))
			w.Distinct(fmt.Sprintf("hb|%s|%d", bc.Shape, blk))
		})

		// ---- short reads
		type shortCase struct {
			Scenario string     `json:"scenario"`
			Short    []c14Short `json:"short_reads"`
		}
		scen := c14Scenarios()
		byName := map[string]c14Scenario{}
		for _, s := range scen {
			byName[s.name] = s
		}
		maxDev := vx.Pick(c, 1, 2)
		vx.Enumerate(c, "short-read", vx.Opts{Serial: true, Crumb: true}, func(yield func(shortCase) bool) {
			for _, s := range scen {
				if !yield(shortCase{Scenario: s.name}) {
					return
				}
				var pos []c14Short
				for i := 0; i < s.c2s; i++ {
					pos = append(pos, c14Short{"c2s", i, 0})
				}
				for i := 0; i < s.s2c; i++ {
					pos = append(pos, c14Short{"s2c", i, 0})
				}
				sizes := []int{1, 7}
				for i, p := range pos {
					for _, n := range sizes {
						p.N = n
						if !yield(shortCase{s.name, []c14Short{p}}) {
							return
						}
						if maxDev < 2 {
							continue
						}
						for _, q := range pos[i+1:] {
							for _, m := range sizes {
								q.N = m
								if !yield(shortCase{s.name, []c14Short{p, q}}) {
									return
								}
							}
						}
					}
				}
			}
		}, func(w *vx.W, sc shortCase) {
			s, ok := byName[sc.Scenario]
			if !ok {
				panic("c14: unknown scenario " + sc.Scenario)
			}
			x := s.x
			x.Short = sc.Short
			st, done := c14Run(w, x)
			if !done {
				return
			}
			if len(sc.Short) == 0 {
				// the default run fixes the read-index bound of the scenario
				if st.c2sReads > s.c2s || st.s2cRds > s.s2c {
					w.Ctx().Cap(fmt.Sprintf("short-read: scenario %s performs %d/%d reads, more than the enumerated %d/%d indices", s.name, st.c2sReads, st.s2cRds, s.c2s, s.s2c))
				}
				w.Nontrivial()
				w.Outcome("default-run " + s.name)
				return
			}
			if st.fired == len(sc.Short) {
				// every placed short read really truncated a read
				w.Nontrivial()
				w.Outcome(fmt.Sprintf("short-reads=%d %s", len(sc.Short), s.name))
				w.Distinct(fmt.Sprintf("%s|%v", s.name, sc.Short))
			} else {
				w.Outcome("placement-not-reached")
			}
		})
		if !c.Replaying() {
			c.Note("short_read.max_deviations", maxDev)
		}

		// ---- histories: several exchanges on one connection whose body bytes
		// add up to the receiver's connection window (the connection-level
		// flow-control state is the one thing besides the HPACK tables that an
		// exchange inherits from the exchanges before it)
		type histCase struct {
			Dir    string `json:"direction"` // which bodies carry the bytes: "request" (server's connection window) / "response" (client's)
			Window int    `json:"receiver_conn_window"`
			Frame  int    `json:"receiver_max_frame_size"`
			Decl   bool   `json:"len_declared"`
			K      int    `json:"bodies"` // K bodies, as equal as possible (the last takes the remainder), of Total bytes together
			Total  int    `json:"total_bytes"`
			Probe  int    `json:"probe_body_len"`       // then two more exchanges with a body of this length
			Read   int    `json:"reader_buf,omitempty"` // response direction: the client's Read buffer (0: io.ReadAll's growing one)
		}
		vx.Enumerate(c, "connection-window-history", vx.Opts{Serial: true, Crumb: true}, func(yield func(histCase) bool) {
			for _, win := range vx.Pick(c, []int{65535}, []int{65535, 131071}) {
				for k := 1; k <= vx.Pick(c, 4, 8); k++ {
					for _, total := range []int{win - 1, win, win + 1, win + 65534, win + 65535, win + 65536} {
						for _, dir := range []string{"request", "response"} {
							if total > win+1 && dir != "response" {
								// the Transport announces its configured connection window
								// as an increment on top of the protocol's initial 65535
								// (visible on the wire), so for response bodies the totals
								// are taken around both values
								continue
							}
							for _, frame := range []int{1 << 20, 16384} {
								for _, decl := range []bool{true, false} {
									for _, probe := range vx.Pick(c, []int{1}, []int{1, 21845}) {
										if !yield(histCase{dir, win, frame, decl, k, total, probe, 0}) {
											return
										}
										// the request body's reader is the server's handler (io.ReadAll:
										// what one Read takes is bounded by what has arrived); for the
										// response body also a reader that takes a whole body at once
										if dir == "response" && !yield(histCase{dir, win, frame, decl, k, total, probe, 1 << 20}) {
											return
										}
									}
								}
							}
						}
					}
				}
			}
		}, func(w *vx.W, hc histCase) {
			x := c14Base()
			x.ReqHdr, x.ResHdr = 0, 0
			x.ReqDecl, x.ResDecl = hc.Decl, hc.Decl
			other := c14Lens{0, 5} // the direction that is not under test: bodyless GET, 5-byte answer
			switch hc.Dir {
			case "request":
				x.SConn, x.SFrame = int32(hc.Window), uint32(hc.Frame)
			case "response":
				x.Method, x.ReqDecl = "GET", true
				x.CConn, x.CFrame, x.ResRead = hc.Window, uint32(hc.Frame), hc.Read
				other = c14Lens{0, 0}
			default:
				panic("c14: unknown direction " + hc.Dir)
			}
			add := func(n int) {
				l := other
				if hc.Dir == "request" {
					l.Req = n
				} else {
					l.Res = n
				}
				x.Seq = append(x.Seq, l)
			}
			for i := 0; i < hc.K; i++ {
				n := hc.Total / hc.K
				if i == hc.K-1 {
					n = hc.Total - n*(hc.K-1)
				}
				add(n)
			}
			add(hc.Probe)
			add(hc.Probe)
			if why := c14Invalid(&x); why != "" {
				panic("c14: history outside the domain: " + why)
			}
			st, ok := c14Run(w, x)
			if !ok {
				return
			}
			w.Nontrivial()
			wire := &st.c2s
			if hc.Dir == "response" {
				wire = &st.s2c
			}
			cmp := fmt.Sprintf("=window%+d", hc.Total-hc.Window)
			w.Outcome(fmt.Sprintf("history %s total%s largest-data-frame%s declared=%v", hc.Dir, cmp, map[bool]string{false: "<=16384", true: ">16384"}[wire.maxData > 16384], hc.Decl))
			w.Distinct(fmt.Sprintf("hist|%s|%d|%d|%d|%v|%s|%s", hc.Dir, hc.Window, hc.K, hc.Total, hc.Decl, st.c2s.trace, st.s2c.trace))
		})

		// ---- the exchange while the server shuts the connection down gracefully
		vx.Enumerate(c, "graceful-goaway", vx.Opts{Serial: true, Crumb: true}, func(yield func(c14ShutCase) bool) {
			c14ShutCases(wide, yield)
		}, c14ShutRun)
	})
}
