//go:build !(go1.27 && !http2legacy)

package http2

// White-box accessors for the C09/C10/C11 client-side harnesses (package
// http2_test). Read-only snapshot of a ClientConn's flow-control state taken
// under cc.mu.

// C09cliStreamSnap is the flow-control state of one stream in cc.streams.
type C09cliStreamSnap struct {
	ID          uint32
	Flow        int32 // cs.flow.n (send window)
	InAvail     int32 // cs.inflow.avail
	InUnsent    int32 // cs.inflow.unsent
	BufLen      int   // cs.bufPipe.Len(): buffered unread response bytes
	BufErr      bool  // response body pipe closed/broken
	ReadClosed  bool
	ReadAborted bool
	PastHeaders bool
	Aborted     bool // cs.abort closed
}

// C09cliSnap is the flow-control state of a ClientConn.
type C09cliSnap struct {
	ConnFlow      int32
	ConnInAvail   int32
	ConnInUnsent  int32
	MaxFrameSize  uint32
	InitialWindow uint32
	StreamRecvWin int32 // configured per-stream receive window
	Closed        bool
	Streams       []C09cliStreamSnap // ascending stream id
}

func (cc *ClientConn) C09cliSnapshot() C09cliSnap {
	cc.mu.Lock()
	defer cc.mu.Unlock()
	s := C09cliSnap{
		ConnFlow:      cc.flow.n,
		ConnInAvail:   cc.inflow.avail,
		ConnInUnsent:  cc.inflow.unsent,
		MaxFrameSize:  cc.maxFrameSize,
		InitialWindow: cc.initialWindowSize,
		StreamRecvWin: cc.initialStreamRecvWindowSize,
		Closed:        cc.closed,
	}
	for id := uint32(1); id < cc.nextStreamID; id += 2 {
		cs, ok := cc.streams[id]
		if !ok {
			continue
		}
		ss := C09cliStreamSnap{
			ID:          id,
			Flow:        cs.flow.n,
			InAvail:     cs.inflow.avail,
			InUnsent:    cs.inflow.unsent,
			BufLen:      cs.bufPipe.Len(),
			BufErr:      cs.bufPipe.Err() != nil,
			ReadClosed:  cs.readClosed,
			ReadAborted: cs.readAborted,
			PastHeaders: cs.pastHeaders,
		}
		select {
		case <-cs.abort:
			ss.Aborted = true
		default:
		}
		s.Streams = append(s.Streams, ss)
	}
	return s
}

// C09cliBodyBuffered returns the number of received, not yet read bytes held
// by a Response.Body returned by this package's Transport (ok=false for other
// body types such as noBody).
func C09cliBodyBuffered(body any) (n int, ok bool) {
	b, ok := body.(transportResponseBody)
	if !ok {
		return 0, false
	}
	return b.cs.bufPipe.Len(), true
}

// C09cliReaderErr returns the error the ClientConn's read loop ended with
// (done=false while it is still running). This is the error every pending
// request and response body is failed with.
func (cc *ClientConn) C09cliReaderErr() (err error, done bool) {
	select {
	case <-cc.readerDone:
		return cc.readerErr, true
	default:
		return nil, false
	}
}
