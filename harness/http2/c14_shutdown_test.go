package http2

// C14 — part 'graceful-goaway': the exchange under a connection-shutdown
// history. A real Transport (RoundTrip through its connection pool, dialling
// in-memory connections through DialTLSContext) sends a request to a real
// Server; while the request is under way the server starts a graceful
// shutdown of the connection (http.Server.Shutdown, or its idle timer fires)
// and sends GOAWAY(NO_ERROR). Either the server has already read the request's
// HEADERS (the GOAWAY's last-stream-id covers the stream, the exchange goes on
// on that connection) or they are still in flight (the stream is above the
// last-stream-id: the Transport must retry on a new connection or report an
// error). The request body is read by the Transport up to a chosen Read call
// when the GOAWAY arrives. Oracle: C14's, per handler invocation.

import (
	"context"
	"crypto/tls"
	"errors"
	"fmt"
	"io"
	"log"
	"net"
	"net/http"
	"net/http/httptrace"
	"net/textproto"
	"strings"
	"sync"
	"testing"
	"testing/synctest"
	"time"

	"golang.org/x/net/internal/zzverif/vx"
)

type c14ShutCase struct {
	// Trigger: what makes the server send GOAWAY(NO_ERROR):
	// "server-shutdown" = http.Server.Shutdown (ConfigureServer's
	// RegisterOnShutdown hook), "idle-timeout" = Server.IdleTimeout expires.
	Trigger string `json:"trigger"`
	// Unread: the request's HEADERS frame (and what follows it) has not been
	// read by the server when it sends the GOAWAY, so the last-stream-id is
	// below the request's stream; false: the handler is already running, the
	// last-stream-id covers the stream.
	Unread bool `json:"request_unread_by_server_at_goaway"`
	// Prior: requests completed on the connection before (0: the request is
	// stream 1 of a new connection, 1: stream 3 of a pooled one).
	Prior int `json:"requests_completed_before"`
	// Body: "none"; "one-shot" = an io.ReadCloser, Request.GetBody nil;
	// "get-body" = the same with Request.GetBody set.
	Body string `json:"body_kind"`
	// Gate: index of the body Read call that does not return before the
	// GOAWAY has reached the Transport (Reads 0..n-1 deliver the n chunks, Read
	// n returns io.EOF); -1: the body never waits (everything the flow-control
	// window admits is written before the GOAWAY).
	Gate int  `json:"body_read_waiting_for_goaway"`
	Decl bool `json:"req_len_declared"`
	Trl  int  `json:"req_trailers"`
	// Over: the body (70001 bytes in Reads of 30000) exceeds the stream window
	// (65535, the protocol default, so that a fresh connection is not in the
	// situation of the known findings): with the request unread by the server
	// no WINDOW_UPDATE comes and the Transport waits for flow control with
	// part of what it read written. Otherwise 250 bytes in Reads of 100 and a
	// window of 1 MB.
	Over bool `json:"body_exceeds_stream_window"`
}

const (
	c14ShutIdle   = 30 * time.Second
	c14MaxDials   = 3
	c14ShutChunks = 3
)

func (sc *c14ShutCase) shape() c14Case {
	x := c14Base()
	x.ReqTrl = sc.Trl
	x.ResBody = 10
	switch {
	case sc.Body == "none":
		x.Method, x.ReqBody, x.ReqDecl = "GET", 0, true
	case sc.Over:
		x.Method, x.ReqBody, x.ReqChunk, x.ReqDecl, x.SWin = "POST", 70001, 30000, sc.Decl, 65535
	default:
		x.Method, x.ReqBody, x.ReqChunk, x.ReqDecl, x.SWin = "POST", 250, 100, sc.Decl, 1<<20
	}
	if (x.ReqBody+x.ReqChunk-1)/max(1, x.ReqChunk) != c14ShutChunks && sc.Body != "none" {
		panic("c14: shutdown part expects bodies of 3 chunks")
	}
	return x
}

func (sc *c14ShutCase) invalid() string {
	if sc.Trigger == "idle-timeout" && !sc.Unread {
		return "the idle timer does not run while a stream is open"
	}
	if sc.Body == "none" && (sc.Gate >= 0 || sc.Trl != 0 || !sc.Decl || sc.Over) {
		return "no body"
	}
	x := sc.shape()
	return c14Invalid(&x)
}

func c14ShutCases(wide bool, yield func(c14ShutCase) bool) {
	nChunks := c14ShutChunks
	trls := []int{0, 1}
	if wide {
		trls = []int{0, 1, 20}
	}
	for _, trig := range []string{"server-shutdown", "idle-timeout"} {
		for _, unread := range []bool{true, false} {
			for prior := 0; prior <= 1; prior++ {
				for _, body := range []string{"none", "one-shot", "get-body"} {
					for gate := -1; gate <= nChunks; gate++ {
						for _, decl := range []bool{true, false} {
							for _, trl := range trls {
								for _, over := range []bool{false, true} {
									sc := c14ShutCase{trig, unread, prior, body, gate, decl, trl, over}
									if sc.invalid() != "" {
										continue
									}
									if !yield(sc) {
										return
									}
								}
							}
						}
					}
				}
			}
		}
	}
}

// c14GatedBody is a request body whose Read call number gateAt waits for the
// gate; Close does not disturb later Reads (like a file or generator behind
// io.NopCloser).
type c14GatedBody struct {
	r      *c14ChunkReader
	gateAt int
	gate   chan struct{}
	mu     sync.Mutex
	reads  int
	bytes  int
}

func (b *c14GatedBody) Read(p []byte) (int, error) {
	b.mu.Lock()
	i := b.reads
	b.reads++
	b.mu.Unlock()
	if i == b.gateAt {
		<-b.gate
	}
	n, err := b.r.Read(p)
	b.mu.Lock()
	b.bytes += n
	b.mu.Unlock()
	return n, err
}

func (b *c14GatedBody) Close() error { return nil }

func (b *c14GatedBody) consumed() (reads, bytes int) {
	b.mu.Lock()
	defer b.mu.Unlock()
	return b.reads, b.bytes
}

type c14ShutConn struct {
	c2s, s2c *c14Half
	cli, srv *c14Conn
	h1       *http.Server
	done     chan struct{}
}

func c14ShutRun(w *vx.W, sc c14ShutCase) {
	if why := sc.invalid(); why != "" {
		w.Outcome("excluded")
		return
	}
	defer func() {
		if r := recover(); r != nil {
			if s := fmt.Sprint(r); strings.Contains(s, "deadlock") {
				w.Failf("C14/liveness/goroutines-blocked-after-teardown/graceful-goaway", "%v", r)
				return
			}
			panic(r)
		}
	}()
	synctest.Test(w.Ctx().T, func(t *testing.T) { c14ShutExchange(w, &sc) })
}

func c14ShutExchange(w *vx.W, sc *c14ShutCase) {
	x0 := sc.shape()
	x := &x0
	reqHdr := c14HeaderSet(x.ReqHdr, "q")
	reqTrl := c14Trailers(x.ReqTrl, x.ReqTrlPad, "q")
	reqBody := c14Body(x.ReqBody, 1)
	resHdr := c14HeaderSet(x.ResHdr, "s")
	resTrl := c14Trailers(x.ResTrl, x.ResTrlPad, "s")
	resBody := c14Body(x.ResBody, 2)

	var logMu sync.Mutex
	var logBuf strings.Builder
	logw := c14ShutLog{&logMu, &logBuf}

	// ---- servers: one fresh http.Server/http2.Server pair per dialled
	// connection (a retried request reaches another instance), same handler
	var mu sync.Mutex
	var conns []*c14ShutConn
	var seenAll []*c14Seen
	dial := func(ctx context.Context, network, addr string, cfg *tls.Config) (net.Conn, error) {
		mu.Lock()
		defer mu.Unlock()
		idx := len(conns)
		if idx >= c14MaxDials {
			return nil, errors.New("c14: no more connections")
		}
		c := &c14ShutConn{c2s: c14NewHalf(true), s2c: c14NewHalf(false), done: make(chan struct{})}
		c.cli = &c14Conn{in: c.s2c, out: c.c2s, name: fmt.Sprintf("client%d", idx)}
		c.srv = &c14Conn{in: c.c2s, out: c.s2c, name: fmt.Sprintf("server%d", idx)}
		if idx == 0 && sc.Unread {
			c.c2s.hold(uint32(2*sc.Prior + 1))
		}
		c.h1 = &http.Server{ErrorLog: log.New(logw, "srv: ", 0)}
		h2 := &Server{
			MaxReadFrameSize:             x.SFrame,
			MaxUploadBufferPerStream:     x.SWin,
			MaxUploadBufferPerConnection: x.SConn,
			MaxDecoderHeaderTableSize:    x.STbl,
			MaxEncoderHeaderTableSize:    x.STbl,
		}
		if sc.Trigger == "idle-timeout" {
			h2.IdleTimeout = c14ShutIdle
		}
		if err := ConfigureServer(c.h1, h2); err != nil {
			panic(err)
		}
		handler := c14Handler(x, resHdr, resTrl, resBody, func(seen *c14Seen) {
			seen.conn = idx
			mu.Lock()
			seenAll = append(seenAll, seen)
			mu.Unlock()
		})
		go func() {
			defer close(c.done)
			h2.ServeConn(c.srv, &ServeConnOpts{BaseConfig: c.h1, Handler: handler})
		}()
		conns = append(conns, c)
		return c.cli, nil
	}
	tr := &Transport{
		DialTLSContext:            dial,
		DisableCompression:        true,
		MaxReadFrameSize:          x.CFrame,
		MaxDecoderHeaderTableSize: x.CTbl,
		MaxEncoderHeaderTableSize: x.CTbl,
	}

	// ---- client
	gate := make(chan struct{})
	var gated *c14GatedBody
	one := func(cr1 *c14CliResult, gateAt int) {
		cr1.started = true
		ctx := httptrace.WithClientTrace(context.Background(), &httptrace.ClientTrace{
			Got1xxResponse: func(code int, h textproto.MIMEHeader) error {
				cr1.infos = append(cr1.infos, c14Info{code, h})
				return nil
			},
		})
		req, err := http.NewRequestWithContext(ctx, x.Method, "https://c14.example"+c14Paths[x.Path], nil)
		if err != nil {
			panic(err)
		}
		newBody := func(gateAt int) *c14GatedBody {
			cr := &c14ChunkReader{data: reqBody, chunk: x.ReqChunk}
			if len(reqTrl) > 0 {
				cr.atEOF = func() {
					for k, vv := range reqTrl {
						req.Trailer[k] = append([]string(nil), vv...)
					}
				}
			}
			return &c14GatedBody{r: cr, gateAt: gateAt, gate: gate}
		}
		if sc.Body == "none" {
			req.Body = http.NoBody
		} else {
			b := newBody(gateAt)
			if gateAt != -2 {
				gated = b
			}
			req.Body = b
			if sc.Body == "get-body" {
				req.GetBody = func() (io.ReadCloser, error) { return newBody(-1), nil }
			}
		}
		req.ContentLength = 0
		if x.ReqDecl {
			req.ContentLength = int64(x.ReqBody)
		}
		for k, vv := range reqHdr {
			req.Header[k] = append([]string(nil), vv...)
		}
		if len(reqTrl) > 0 {
			req.Trailer = http.Header{}
			for k := range reqTrl {
				req.Trailer[k] = nil
			}
		}
		cr1.setStage("roundtrip")
		cr1.res, cr1.err = tr.RoundTrip(req)
		if cr1.err != nil {
			return
		}
		cr1.setStage("read-body")
		cr1.body, cr1.bodyErr = io.ReadAll(cr1.res.Body)
		cr1.trailer = cr1.res.Trailer.Clone()
		cr1.setStage("close-body")
		cr1.res.Body.Close()
		cr1.setStage("done")
	}
	run := func(cr1 *c14CliResult, gateAt int, during func()) (hungStage string) {
		done := make(chan struct{})
		go func() {
			defer close(done)
			one(cr1, gateAt)
		}()
		if during != nil {
			during()
		}
		select {
		case <-done:
		case <-time.After(c14Hang):
			hungStage = cr1.getStage()
			if hungStage == "done" {
				hungStage = ""
			}
		}
		return
	}

	results := make([]c14CliResult, sc.Prior+1)
	hungStage, hungAt := "", -1
	for i := 0; i < sc.Prior && hungStage == ""; i++ {
		if hungStage = run(&results[i], -2, nil); hungStage != "" {
			hungAt = i
		}
		if results[i].err != nil || results[i].bodyErr != nil {
			break
		}
		synctest.Wait()
	}
	priorOK := hungStage == ""
	for i := 0; i < sc.Prior; i++ {
		priorOK = priorOK && results[i].err == nil && results[i].bodyErr == nil
	}
	var goAwaySeen bool
	var readsAtGoAway, bytesAtGoAway int
	if priorOK {
		main := &results[sc.Prior]
		hungStage = run(main, sc.Gate, func() {
			// the Transport has written all it can: the request's header block
			// and the body up to the waiting Read / the window / its end
			synctest.Wait()
			mu.Lock()
			if len(conns) == 0 {
				mu.Unlock()
				close(gate)
				return
			}
			c0 := conns[0]
			mu.Unlock()
			switch sc.Trigger {
			case "server-shutdown":
				c0.h1.Shutdown(context.Background())
			case "idle-timeout":
				time.Sleep(c14ShutIdle + time.Millisecond)
			}
			synctest.Wait() // the GOAWAY has reached the Transport
			c0.s2c.mu.Lock()
			goAwaySeen = c0.s2c.wire.types[FrameGoAway] > 0
			c0.s2c.mu.Unlock()
			if gated != nil {
				readsAtGoAway, bytesAtGoAway = gated.consumed()
			}
			// the frames in flight arrive at the server; the application goes on
			// producing the body
			c0.c2s.releaseHold()
			synctest.Wait()
			close(gate)
		})
		if hungStage != "" {
			hungAt = sc.Prior
		}
	} else {
		close(gate)
	}
	synctest.Wait()

	// ---- tear down
	tr.CloseIdleConnections()
	mu.Lock()
	all := append([]*c14ShutConn(nil), conns...)
	mu.Unlock()
	for _, c := range all {
		c.cli.Close()
	}
	for i, c := range all {
		select {
		case <-c.done:
		case <-time.After(c14Hang):
			c.srv.Close()
			w.Failf("C14/liveness/server-conn-does-not-end-after-close", "ServeConn of connection %d did not return within %v (fake) of the client closing the connection", i, c14Hang)
		}
		c.srv.Close()
	}
	synctest.Wait()

	logMu.Lock()
	srvLog := logBuf.String()
	logMu.Unlock()
	ctxt := func() string {
		s := fmt.Sprintf("%d connection(s):", len(all))
		for i, c := range all {
			s += fmt.Sprintf(" [%d] c2s=%s s2c=%s", i, c.c2s.wire.trace, c.s2c.wire.trace)
		}
		s += fmt.Sprintf("; at the GOAWAY the Transport had made %d Read calls on the body and got %d of %d bytes", readsAtGoAway, bytesAtGoAway, len(reqBody))
		if srvLog != "" {
			s += "; server-log=" + fmt.Sprintf("%q", c14Trunc(srvLog, 300))
		}
		return s
	}
	mu.Lock()
	defer mu.Unlock()

	// ---- oracle
	// (1) the requests before the shutdown: the plain exchange oracle
	for i := 0; i < sc.Prior; i++ {
		cr1 := &results[i]
		if !cr1.started {
			return
		}
		fail := func(sig, format string, a ...any) {
			w.Failf(sig+"/before-graceful-goaway", fmt.Sprintf("request #%d: ", i+1)+format, a...)
		}
		switch {
		case hungAt == i:
			fail("C14/liveness/exchange-hangs:"+hungStage, "client stuck in stage %q; %s", hungStage, ctxt())
		case cr1.err != nil:
			fail("C14/client/roundtrip-error:"+c14ErrClass(cr1.err), "RoundTrip: %v; %s", cr1.err, ctxt())
		case i >= len(seenAll):
			fail("C14/request/handler-calls", "the client got a response although the handler ran %d times only; %s", len(seenAll), ctxt())
		default:
			c14Compare(fail, x, seenAll[i], cr1, reqHdr, reqTrl, reqBody, resHdr, resTrl, resBody, ctxt)
		}
		if w.Failed() {
			return
		}
	}
	if !priorOK {
		return
	}
	if !goAwaySeen {
		// the trigger did not produce a GOAWAY: the case is outside the part
		w.Outcome("graceful-goaway: no GOAWAY on the wire")
		return
	}
	main := &results[sc.Prior]
	seenMain := seenAll[min(sc.Prior, len(seenAll)):]
	// abstract situation for the signatures: was the stream covered by the
	// GOAWAY's last-stream-id or not
	sit := "/stream-covered-by-graceful-goaway"
	if sc.Unread {
		sit = "/stream-above-graceful-goaway-last-id"
	}
	// (2) every handler invocation that read a request to its clean end
	// observed exactly the request that was sent, on whichever connection
	for _, seen := range seenMain {
		if !seen.readDone || seen.bodyErr != nil {
			continue // the handler was told that the request is broken
		}
		where := sit
		if seen.conn > 0 {
			where += "/handler-on-retry-connection"
		}
		fail := func(sig, format string, a ...any) {
			w.Failf(sig+where, fmt.Sprintf("request #%d as seen by the handler on connection %d: ", sc.Prior+1, seen.conn)+format, a...)
		}
		c14CompareReq(fail, x, seen, reqHdr, reqTrl, reqBody, ctxt)
		if w.Failed() {
			return
		}
	}
	fail := func(sig, format string, a ...any) {
		w.Failf(sig+sit, fmt.Sprintf("request #%d: ", sc.Prior+1)+format, a...)
	}
	// (3) the client: no hang; a stream the GOAWAY covers completes; a stream
	// above the last-stream-id is retried or fails with an error
	if hungAt == sc.Prior {
		fail("C14/liveness/exchange-hangs:"+hungStage, "client stuck in stage %q for %v of fake time; handler calls=%d; %s", hungStage, c14Hang, len(seenMain), ctxt())
		return
	}
	outcome := ""
	switch {
	case main.err != nil && !sc.Unread:
		fail("C14/client/roundtrip-error:"+c14ErrClass(main.err), "RoundTrip: %v; %s", main.err, ctxt())
		return
	case main.err != nil:
		// nothing was delivered (clause 2 has checked the handlers), and the caller knows
		outcome = "error-reported"
	default:
		// the response belongs to the last handler invocation that read the request
		var last *c14Seen
		for _, seen := range seenMain {
			if seen.readDone && seen.bodyErr == nil {
				last = seen
			}
		}
		if last == nil {
			fail("C14/request/handler-calls", "the client got a response although no handler invocation read the request to its end (%d invocations); %s", len(seenMain), ctxt())
			return
		}
		c14CompareRes(fail, x, main, resHdr, resTrl, resBody, ctxt)
		if w.Failed() {
			return
		}
		outcome = "delivered-on-first-connection"
		if last.conn > 0 {
			outcome = "delivered-on-retry-connection"
		}
	}
	w.Nontrivial()
	cons := "none-read"
	switch {
	case sc.Body == "none":
		cons = "no-body"
	case bytesAtGoAway >= len(reqBody):
		cons = "all-read"
	case bytesAtGoAway > 0:
		cons = "partly-read"
	}
	w.Outcome(fmt.Sprintf("graceful-goaway %s stream-above-last-id=%v body=%s/%s: %s", sc.Trigger, sc.Unread, sc.Body, cons, outcome))
	w.Distinct(fmt.Sprintf("shut|%+v", *sc))
}

type c14ShutLog struct {
	mu *sync.Mutex
	b  *strings.Builder
}

func (l c14ShutLog) Write(p []byte) (int, error) {
	l.mu.Lock()
	defer l.mu.Unlock()
	if l.b.Len() < 4096 {
		l.b.Write(p)
	}
	return len(p), nil
}
