//go:build !(go1.27 && !http2legacy)

package http2_test

// Server parts of C10 (inbound flow-control credit is never leaked) and C11
// (the advertised receive windows are enforced), on the shared h2srv harness
// (c08srv_common_test.go). The harness is a client that uploads request bodies
// and also is every handler (Read / Body.Close / return / panic on command).
//
// Monitor = the client's view of the server's receive windows (RFC 7540
// §6.9): advertised initial value, minus the flow-controlled length of every
// DATA frame sent, plus every WINDOW_UPDATE received.

import (
	"bytes"
	"fmt"
	"io"
	"math"
	"net/http"
	"testing"
	"testing/synctest"

	. "golang.org/x/net/http2"
	"golang.org/x/net/internal/zzverif/vx"
)

type c10sMode struct {
	id      string // "C10" or "C11"
	leak    bool   // C10 oracle clauses
	enforce bool   // C11 oracle clauses
}

// ---------------------------------------------------------------------------
// Monitor

type c10sStream struct {
	id         uint32
	view       int64 // client's view of the stream receive window
	sent       int   // DATA payload bytes sent so far (offset into the byte pattern)
	accepted   int   // payload bytes sent inside both windows while the stream accepted DATA
	acceptOpen bool  // every DATA so far was sent while the stream was open for the client
	cl         int64
	cliEnded   bool
	cliRST     bool
	srvRST     bool
	srvRSTCode ErrCode
	srvEnded   bool
	ignored    bool // opened after a GOAWAY: the server discards it
	bodyClosed bool
	excess     bool // an out-of-window DATA frame was sent on it
	overCL     bool // more DATA than the declared content-length was sent
	irregular  bool // DATA was sent on it after END_STREAM / a reset: stream-level accounting is undefined
	endIgnored bool // END_STREAM was sent with payload after the handler closed the body: the server drops that frame's END_STREAM flag, the two sides disagree about the stream state
	delivered  int  // bytes handler Reads returned so far (checked against the pattern)
}

// clientOpen: the client has not ended or reset the stream and has not seen a reset.
func (s *c10sStream) clientOpen() bool { return !s.cliEnded && !s.cliRST && !s.srvRST }

type c10sMon struct {
	cfgConn, cfgStr int64
	connView        int64
	streams         map[uint32]*c10sStream
	goaway          bool
	goawayCode      ErrCode
	lastKind        string
	excessConn      bool
}

func c10sCfgWin(v int32) int64 {
	if v < 1 {
		return 1 << 20
	}
	return int64(v)
}

// ---------------------------------------------------------------------------
// Predictive model for pruning the enumeration (approximate on purpose; the
// real state decides at run time).

type c10mStream struct {
	opened   bool
	table    bool // in the server's stream table
	cliOpen  bool // client may still send DATA legally
	handler  int  // 0 none, 1 idle, 2 blocked in Read, 3 returned, 4 Read done, its report to the serve loop pending (loop parked)
	buffered int64
	closed   bool // body closed by handler
	quirk    bool // END_STREAM sent with payload after the body was closed (flag dropped by the server)
	pipeErr  bool // body pipe has a terminal error (EOF or reset)
	cl, recv int64
	view     int64 // client view of the stream window
	avail    int64
	unsent   int64
	wantRead int64

	ended bool // the client ended the stream (END_STREAM / trailers): the server no longer accepts DATA on it

	// Only while the client is not reading (BLK … UNB):
	resetQueued bool  // the server answered a stream error with a RST_STREAM that is queued behind a stuck write: the stream stays in its table, DATA for it is discarded
	doneQueued  bool  // the handler returned or panicked, the end of the response is queued behind a stuck write: the stream stays in the table
	unseen      bool  // the server closed or reset the stream but the client cannot have seen it yet: it still considers the stream open
	pendView    int64 // stream-level WINDOW_UPDATE credit the client has not read yet
}

type c10Model struct {
	cfgConn, cfgStr int64
	connView        int64
	cAvail, cUnsent int64
	goaway          int // 0 none, 1 graceful, 2 error
	terminal        bool
	s               [2]c10mStream

	blocked  bool  // the client is not reading (BLK … UNB): nothing the server writes is visible to it
	stuck    bool  // … and the server has written something since: its writer is stuck, later frames queue behind it
	pinged   bool  // a PING was sent in this blocked period
	pendConn int64 // connection-level WINDOW_UPDATE credit the client has not read yet

	// HOLD … REL: the application's ConnState callback is slow. The server
	// calls it on the serve goroutine, from closeStream, when the last stream
	// leaves its table: after the stream is marked closed and before its
	// buffered bytes are refunded and its body pipe is closed.
	armed    bool  // the next ConnState(StateIdle) callback will not return before REL
	parked   bool  // the serve loop is inside that callback, in the middle of closeStream(parkIdx)
	parkIdx  int   // the stream whose close is suspended
	pendNote int64 // bytes the handler read meanwhile; the report waits for the serve loop
}

func (m *c10Model) anyTable() bool { return m.s[0].table || m.s[1].table }

func c10NewModel(cfg c08srvCfg) *c10Model {
	m := &c10Model{cfgConn: c10sCfgWin(cfg.ConnWin), cfgStr: c10sCfgWin(cfg.StrWin)}
	m.connView, m.cAvail = m.cfgConn, m.cfgConn
	return m
}

// c10mAdd is inflow.add; it reports whether a WINDOW_UPDATE is written.
func c10mAdd(avail, unsent *int64, view *int64, n int64) bool {
	*unsent += n
	if *unsent < 4096 && *unsent < *avail {
		return false
	}
	wrote := *unsent > 0
	*avail += *unsent
	*view += *unsent
	*unsent = 0
	return wrote
}

// wrote: the server handed a frame to its writer. While the client is not
// reading, the first such frame still fits the server's write buffer; its
// flush gets stuck and everything after it queues.
func (m *c10Model) wrote() {
	if m.blocked {
		m.stuck = true
	}
}

func (m *c10Model) connAdd(n int64) {
	view := &m.connView
	if m.blocked {
		view = &m.pendConn
	}
	if c10mAdd(&m.cAvail, &m.cUnsent, view, n) {
		m.wrote()
	}
}

func (m *c10Model) strAdd(s *c10mStream, n int64) {
	view := &s.view
	if m.blocked {
		view = &s.pendView
	}
	if c10mAdd(&s.avail, &s.unsent, view, n) {
		m.wrote()
	}
}

// closeStream: the server removes the stream from its table. The client
// learns about it at once, unless it is not reading.
func (m *c10Model) closeStream(s *c10mStream) {
	if !s.table {
		return
	}
	s.table = false
	s.resetQueued, s.doneQueued = false, false
	if m.blocked {
		s.unseen = true
	} else {
		s.cliOpen = false
	}
	if m.armed && !m.anyTable() {
		m.armed, m.parked = false, true
		m.parkIdx = 0
		if s == &m.s[1] {
			m.parkIdx = 1
		}
		return
	}
	m.closeTail(s)
}

// closeTail is the second half of closeStream: the refund of what is still
// buffered, and the end of the body pipe.
func (m *c10Model) closeTail(s *c10mStream) {
	m.connAdd(s.buffered)
	s.pipeErr = true
	m.wake(s)
}

// release: the ConnState callback returns; closeStream finishes, then the
// serve loop receives the reports of the Reads made meanwhile.
func (m *c10Model) release() {
	m.armed = false
	if !m.parked {
		return
	}
	m.parked = false
	m.closeTail(&m.s[m.parkIdx])
	m.connAdd(m.pendNote)
	m.pendNote = 0
	for i := range m.s {
		if m.s[i].handler == 4 {
			m.s[i].handler = 1
		}
	}
}

// srvReset: the server answers with RST_STREAM and closes the stream once
// the frame is written; with a stuck writer the stream stays in the table,
// marked, until the client reads again.
func (m *c10Model) srvReset(s *c10mStream) {
	if !s.table || s.resetQueued {
		return
	}
	if m.stuck {
		s.resetQueued = true
		s.unseen = true
		s.pipeErr = true
		m.wake(s)
		return
	}
	m.wrote()
	m.closeStream(s)
}

// dataWhileBlocked is the DATA transition while the client is not reading.
// What the client knows (cliOpen, view: it has seen no reset and no
// WINDOW_UPDATE since BLK) and what the server does (table, ended,
// resetQueued) are tracked separately here.
func (m *c10Model) dataWhileBlocked(s *c10mStream, ln, fl int64, end bool) {
	if s.cliOpen {
		s.view -= fl // the client counts the frame against the stream window it sees
	}
	if end {
		s.cliOpen = false
	}
	if m.goaway == 2 || !s.table || s.ended || s.resetQueued {
		m.connAdd(fl)
		if s.table && m.goaway != 2 {
			m.srvReset(s) // RST_STREAM(STREAM_CLOSED), unless one is queued already
		}
		return
	}
	if s.cl >= 0 && s.recv+ln > s.cl {
		m.connAdd(fl)
		m.srvReset(s)
		return
	}
	s.avail -= fl
	if s.closed && ln > 0 {
		m.connAdd(fl)
		if end {
			s.quirk = true
		}
		return
	}
	s.recv += ln
	s.buffered += ln
	m.connAdd(fl - ln)
	m.strAdd(s, fl-ln)
	if end {
		s.ended = true
		s.pipeErr = true
	}
	m.wake(s)
}

// unblock: the client reads again; everything queued is written and seen.
func (m *c10Model) unblock() {
	m.blocked, m.stuck, m.pinged = false, false, false
	for i := range m.s {
		s := &m.s[i]
		if s.resetQueued || s.doneQueued {
			m.closeStream(s)
		}
		if s.unseen {
			s.unseen = false
			s.cliOpen = false
		}
		s.view += s.pendView
		s.pendView = 0
	}
	m.connView += m.pendConn
	m.pendConn = 0
}

// wake lets a handler blocked in Read proceed if it can.
func (m *c10Model) wake(s *c10mStream) {
	if s.handler != 2 {
		return
	}
	if s.buffered > 0 && !s.closed {
		m.read(s, s.wantRead)
		s.handler = 1
	} else if s.pipeErr || s.closed {
		s.handler = 1
	}
}

func (m *c10Model) read(s *c10mStream, n int64) {
	k := min(n, s.buffered)
	s.buffered -= k
	if s.table {
		m.connAdd(k)
		if s.cliOpen {
			m.strAdd(s, k)
		}
	}
}

func c10FlowLen(ln, pad int64) int64 {
	if pad > 0 {
		return ln + pad + 1
	}
	return ln
}

// resolveRel turns DR(s,rel,end) into a concrete payload length given the windows.
func c10RelLen(streamView, connView int64, streamOpen bool, rel int64) int64 {
	w := connView
	if streamOpen && streamView < w {
		w = streamView
	}
	return w + rel
}

// c10Frame resolves a DATA event into (payload length, flow-controlled frame
// length, padding length or -1 for an unpadded frame, END_STREAM) given the
// windows the sender sees.
//
//	D(s,len,pad,end)   fixed payload; pad > 0 adds a pad-length byte and pad bytes
//	DR(s,rel,end)      unpadded, frame length = w+rel (w = min of both windows)
//	DRP(s,rel,ovh,end) PADDED, frame length = w+rel of which ovh (1..256) bytes
//	                   are the pad-length byte and ovh-1 padding bytes; the
//	                   payload is the remaining w+rel-ovh bytes
//
// RFC 9113 §6.9.1: the whole frame payload, padding included, is
// flow-controlled.
func c10Frame(ev c08srvEv, streamView, connView int64) (ln, fl, pad int64, end bool) {
	switch ev.K {
	case "DR":
		fl = c10RelLen(streamView, connView, true, ev.arg(1))
		return fl, fl, -1, ev.arg(2) != 0
	case "DRP":
		fl = c10RelLen(streamView, connView, true, ev.arg(1))
		return fl - ev.arg(2), fl, ev.arg(2) - 1, ev.arg(3) != 0
	}
	ln, pad = ev.arg(1), ev.arg(2)
	if pad <= 0 {
		pad = -1
	}
	return ln, c10FlowLen(ln, ev.arg(2)), pad, ev.arg(3) != 0
}

func (m *c10Model) enabled(ev c08srvEv, enforce bool) bool {
	if m.terminal {
		return false
	}
	idx := func() *c10mStream { return &m.s[c08Idx(ev.arg(0))] }
	if m.parked {
		// The serve loop is inside the ConnState callback: only the handler
		// of the stream being closed acts (one pending kind of input for the
		// loop, so what it does after REL does not depend on a select).
		switch ev.K {
		case "R", "C":
			s := idx()
			return s == &m.s[m.parkIdx] && s.handler == 1 && !(ev.K == "C" && s.closed)
		case "REL":
			return true
		}
		return false
	}
	switch ev.K {
	case "HOLD":
		return !m.armed && !m.blocked && m.anyTable()
	case "REL":
		return false
	case "H":
		return !m.s[1].opened && m.goaway != 2
	case "D":
		s := idx()
		if !s.opened || s.quirk {
			return false
		}
		fl := c10FlowLen(ev.arg(1), ev.arg(2))
		if fl > m.connView {
			return enforce
		}
		if s.cliOpen {
			return fl <= s.view || enforce
		}
		// DATA on a finished/reset stream: one representative size is enough
		return ev.arg(1) == 4 && ev.arg(3) == 0
	case "DR":
		s := idx()
		if !s.opened || !s.cliOpen {
			return false
		}
		n := c10RelLen(s.view, m.connView, true, ev.arg(1))
		return n >= 0 && n <= 1<<20
	case "DRP":
		s := idx()
		if !s.opened || !s.cliOpen || ev.arg(2) < 1 || ev.arg(2) > 256 {
			return false
		}
		ln, fl, _, _ := c10Frame(ev, s.view, m.connView)
		return ln >= 0 && fl <= 1<<20
	case "R", "C", "DONE", "P":
		s := idx()
		if s.handler != 1 {
			return false
		}
		if ev.K == "C" && s.closed {
			return false
		}
		return true
	case "RST", "T":
		s := idx()
		return s.opened && s.cliOpen
	case "G":
		return m.goaway == 0
	case "GS":
		return m.goaway == 0 && m.s[0].opened
	case "BLK":
		return !m.blocked
	case "UNB":
		return m.blocked
	case "PING":
		// Only as the frame whose acknowledgement gets stuck in the server's
		// writer: while the client reads, or after a first one, a PING does
		// not change any flow-control relevant state.
		return m.blocked && !m.pinged
	}
	return false
}

func (m *c10Model) apply(ev c08srvEv) {
	idx := func() *c10mStream { return &m.s[c08Idx(ev.arg(0))] }
	switch ev.K {
	case "H":
		i := 0
		if m.s[0].opened {
			i = 1
		}
		s := c10mStream{opened: true, cliOpen: true, cl: ev.arg(0), view: m.cfgStr, avail: m.cfgStr}
		if m.goaway == 0 {
			s.table, s.handler = true, 1
		}
		m.s[i] = s
	case "D", "DR", "DRP":
		s := idx()
		ln, fl, _, end := c10Frame(ev, s.view, m.connView)
		if fl > m.connView || (s.cliOpen && fl > s.view) {
			m.terminal = true // out-of-window frame ends a case
			return
		}
		m.connView -= fl
		m.cAvail -= fl
		if m.blocked {
			m.dataWhileBlocked(s, ln, fl, end)
			return
		}
		if m.goaway == 2 || !s.table || !s.cliOpen {
			m.connAdd(fl)
			if s.table && m.goaway != 2 {
				m.closeStream(s) // RST_STREAM(STREAM_CLOSED)
			}
			return
		}
		if s.cl >= 0 && s.recv+ln > s.cl {
			m.connAdd(fl)
			m.closeStream(s)
			return
		}
		s.view -= fl
		s.avail -= fl
		if s.closed && ln > 0 {
			m.connAdd(fl)
			if end {
				s.quirk, s.cliOpen = true, false
			}
			return
		}
		s.recv += ln
		s.buffered += ln
		m.connAdd(fl - ln)
		m.strAdd(s, fl-ln)
		if end {
			s.cliOpen = false
			s.ended = true
			s.pipeErr = true
		}
		m.wake(s)
	case "HOLD":
		m.armed = true
	case "REL":
		m.release()
	case "R":
		s := idx()
		if s.closed {
			return
		}
		if m.parked && s.buffered > 0 {
			k := min(ev.arg(1), s.buffered)
			s.buffered -= k
			m.pendNote += k
			s.handler = 4
		} else if s.buffered > 0 {
			m.read(s, ev.arg(1))
		} else if !s.pipeErr {
			s.handler = 2
			s.wantRead = ev.arg(1)
		}
	case "C":
		s := idx()
		s.closed = true
	case "DONE", "P":
		s := idx()
		s.handler = 3
		if m.stuck && s.table {
			// the end of the response (or the RST_STREAM after a panic)
			// queues; until it is written the stream still accepts DATA
			s.doneQueued = true
			return
		}
		m.wrote()
		m.closeStream(s)
	case "RST":
		s := idx()
		s.cliOpen = false
		m.closeStream(s)
	case "T":
		s := idx()
		s.cliOpen = false
		s.ended = true
		s.pipeErr = true
		m.wake(s)
	case "G":
		m.goaway = 2
		m.wrote()
	case "GS":
		m.goaway = 1
		m.wrote()
	case "BLK":
		m.blocked = true
	case "UNB":
		m.unblock()
	case "PING":
		m.pinged = true
		m.wrote()
	}
}

func (m *c10Model) clone() *c10Model { c := *m; return &c }

// c10Gen yields, for depth 1..maxDepth, every model-legal sequence of exactly
// that depth after the seed (shortest first).
func c10Gen(cfg c08srvCfg, seed []string, alpha []c08srvEv, maxDepth int, enforce bool, onDepth func(int), yield func(c08srvCase) bool) bool {
	base := c10NewModel(cfg)
	for _, s := range seed {
		ev, err := c08srvParse(s)
		if err != nil {
			panic(err)
		}
		base.apply(ev)
	}
	for depth := 1; depth <= maxDepth; depth++ {
		path := append([]string(nil), seed...)
		var rec func(m *c10Model, d int) bool
		rec = func(m *c10Model, d int) bool {
			if d == depth {
				return yield(c08srvCase{Cfg: cfg, SeedLen: len(seed), Evs: append([]string(nil), path...)})
			}
			for _, ev := range alpha {
				if !m.enabled(ev, enforce) {
					continue
				}
				m2 := m.clone()
				m2.apply(ev)
				path = append(path, c08EvString(ev))
				ok := rec(m2, d+1)
				path = path[:len(path)-1]
				if !ok {
					return false
				}
			}
			return true
		}
		if !rec(base, 0) {
			return false
		}
		if onDepth != nil {
			onDepth(depth)
		}
	}
	return true
}

// ---------------------------------------------------------------------------
// Runner

type c10sResult struct {
	trace            []string
	applied, skipped int
	dataSent         int
	wuSeen           int
	refundPaths      map[string]bool
	excessSent       bool
	fcErrSeen        bool
	bytesDelivered   int
	unblocked        int // times the client resumed reading after a BLK period
	hookParks        int // times closeStream was suspended in the ConnState callback
}

func c10srvRunCase(w *vx.W, t testing.TB, cs c08srvCase, mode c10sMode) (res c10sResult, harnessErr string) {
	res.refundPaths = map[string]bool{}
	env := c08srvNew(t, cs.Cfg)
	defer func() {
		env.teardown()
		if harnessErr == "" {
			harnessErr = env.harnessErr
		}
	}()
	P := mode.id + "/srv/"
	mon := &c10sMon{cfgConn: c10sCfgWin(cs.Cfg.ConnWin), cfgStr: c10sCfgWin(cs.Cfg.StrWin), connView: 65535, streams: map[uint32]*c10sStream{}, lastKind: "preface"}

	onFrame := func(f c08srvFrame, ctx string) {
		switch f.Type {
		case FrameWindowUpdate:
			res.wuSeen++
			if f.Stream == 0 {
				mon.connView += int64(f.Inc)
				if mode.leak && mon.connView > c08MaxWin {
					w.Failf(P+"window-update/conn-window-above-2^31-1", "%s: %v raises the connection receive window to %d", ctx, f, mon.connView)
				} else if mode.leak && mon.connView > mon.cfgConn {
					w.Failf(P+"window-update/conn-window-above-configured/after-"+mon.lastKind, "%s: %v raises the client's view of the connection receive window to %d > configured %d", ctx, f, mon.connView, mon.cfgConn)
				}
			} else if s := mon.streams[f.Stream]; s != nil {
				s.view += int64(f.Inc)
				if mode.leak && s.view > mon.cfgStr && !s.irregular && !s.endIgnored {
					w.Failf(P+"window-update/stream-window-above-configured/after-"+mon.lastKind, "%s: %v raises the client's view of the stream receive window to %d > configured %d", ctx, f, s.view, mon.cfgStr)
				}
			}
		case FrameRSTStream:
			if s := mon.streams[f.Stream]; s != nil {
				s.srvRST, s.srvRSTCode = true, f.Code
			}
			if f.Code == ErrCodeFlowControl {
				res.fcErrSeen = true
			}
		case FrameGoAway:
			mon.goaway, mon.goawayCode = true, f.Code
			if f.Code == ErrCodeFlowControl {
				res.fcErrSeen = true
			}
		case FrameHeaders, FrameData:
			if s := mon.streams[f.Stream]; s != nil && f.End {
				s.srvEnded = true
			}
		}
	}
	step := func(ctx string) {
		synctest.Wait()
		for _, f := range env.drain() {
			if f.Type == FrameSettings && !f.Ack {
				env.writeErr(env.st.fr.WriteSettingsAck())
			}
			res.trace = append(res.trace, f.String())
			onFrame(f, ctx)
		}
		if env.wireErr != "" {
			w.Failf(P+"wire/unparseable-server-output", "%s: reading the server's output failed: %s", ctx, env.wireErr)
		}
	}
	step("preface")
	if w.Failed() || env.harnessErr != "" {
		return
	}

	// BLK … UNB: the client stops reading. With a receive buffer of 0 every
	// write of the server blocks: the first frame it produces still fits its
	// own write buffer, the flush of that buffer gets stuck, and every later
	// frame waits in the write queue. Nothing the server produces in such a
	// period is visible to the client (and to the monitor) before UNB.
	blocked := false
	var blkKinds map[string]bool // white-box kinds of the DATA frames sent in the current BLK period
	// unbKind names the UNB event after the most specific kind of DATA the
	// server had to discard or hold while the client was not reading.
	unbKind := func() string {
		for _, k := range []string{"D-while-reset-queued", "D-while-response-end-queued", "D-after-unseen-close"} {
			if blkKinds[k] {
				return "UNB-after-" + k
			}
		}
		return "UNB"
	}
	unblock := func(ctx string) {
		blocked = false
		blkKinds = nil
		res.unblocked++
		if nc, ok := env.st.cc.(*synctestNetConn); ok {
			nc.SetReadBufferSize(math.MaxInt)
		}
		for i := 0; i < 64; i++ {
			n := len(res.trace)
			step(ctx)
			if len(res.trace) == n || w.Failed() {
				break
			}
		}
	}
	if v, ok := env.srvSettings[SettingInitialWindowSize]; ok {
		if int64(v) != mon.cfgStr {
			return res, fmt.Sprintf("server advertised INITIAL_WINDOW_SIZE %d, harness expected %d", v, mon.cfgStr)
		}
	} else if mon.cfgStr != 65535 {
		return res, "server did not advertise INITIAL_WINDOW_SIZE"
	}

	// checkReads compares what the handler's Reads returned with the byte
	// pattern the client sent (order, no duplication, no excess).
	checkReads := func(ctx string) {
		for id, s := range mon.streams {
			call := env.call(id)
			if call == nil {
				continue
			}
			got := call.readBuf
			if len(got) > s.delivered {
				res.bytesDelivered += len(got) - s.delivered
			}
			s.delivered = len(got)
			if !mode.enforce {
				continue
			}
			if len(got) > s.accepted {
				w.Failf(P+"delivery/more-than-in-window-bytes-delivered", "%s: stream %d handler read %d bytes but only %d were sent inside the advertised windows", ctx, id, len(got), s.accepted)
				continue
			}
			if !bytes.Equal(got, c08srvPattern(0, len(got))) {
				w.Failf(P+"delivery/bytes-out-of-order-or-corrupt", "%s: stream %d handler read bytes that are not the prefix of what was sent", ctx, id)
			}
		}
	}

	streamCredit := func(ctx string, ss C08srvStreamSnap) {
		if ss.State == int(StateOpen) && ss.HasBody && !ss.BodyErr && !ss.ResetQueued {
			if tot := int64(ss.InAvail) + int64(ss.InUnsent) + int64(ss.BodyLen); tot != mon.cfgStr {
				kind := "leak"
				if tot > mon.cfgStr {
					kind = "over-credit"
				}
				w.Failf(P+"stream-credit/"+kind+"/after-"+mon.lastKind, "%s: open stream %d: avail(%d)+unsent(%d)+buffered(%d)=%d, configured stream window %d", ctx, ss.ID, ss.InAvail, ss.InUnsent, ss.BodyLen, tot, mon.cfgStr)
			}
		}
	}

	quiescent := func(ctx string) {
		checkReads(ctx)
		if env.connClosed {
			return
		}
		snap := env.st.sc.C08srvSnapshot()
		if !snap.OK {
			return
		}
		if int64(snap.ConfConnWindow) != mon.cfgConn || int64(snap.ConfStrWindow) != mon.cfgStr {
			env.herr("configured windows %d/%d differ from the harness's %d/%d", snap.ConfConnWindow, snap.ConfStrWindow, mon.cfgConn, mon.cfgStr)
			return
		}
		if !mode.leak {
			return
		}
		if mon.excessConn {
			return
		}
		var buffered int64
		for _, ss := range snap.Streams {
			buffered += int64(ss.BodyLen)
		}
		total := int64(snap.ConnInAvail) + int64(snap.ConnInUnsent) + buffered
		if total != mon.cfgConn {
			kind := "leak"
			if total > mon.cfgConn {
				kind = "over-credit"
			}
			w.Failf(P+"conn-credit/"+kind+"/after-"+mon.lastKind, "%s: sc.inflow.avail(%d)+unsent(%d)+unread buffered(%d) = %d, configured connection window %d: %d bytes of connection-level credit %s", ctx, snap.ConnInAvail, snap.ConnInUnsent, buffered, total, mon.cfgConn, abs64(total-mon.cfgConn), map[string]string{"leak": "are lost", "over-credit": "were returned twice"}[kind])
			return
		}
		if blocked {
			// The client is not reading: WINDOW_UPDATEs the server has produced
			// are not on the wire yet, so the clauses that compare with the
			// client's view wait until it has resumed reading and drained the
			// connection (UNB); the white-box clauses do not.
			if snap.ConnInUnsent >= InflowMinRefresh && snap.ConnInUnsent >= snap.ConnInAvail {
				w.Failf(P+"conn-credit/withheld-beyond-batching-rule", "%s: unsent=%d avail=%d", ctx, snap.ConnInUnsent, snap.ConnInAvail)
				return
			}
			for _, ss := range snap.Streams {
				s := mon.streams[ss.ID]
				if s == nil || s.excess || s.irregular {
					continue
				}
				streamCredit(ctx, ss)
			}
			return
		}
		// After a GOAWAY with an error code the server stops writing frames
		// (the connection is being torn down): the wire view is frozen.
		errGoAway := mon.goaway && mon.goawayCode != ErrCodeNo
		if errGoAway {
			return
		}
		if int64(snap.ConnInAvail) != mon.connView {
			w.Failf(P+"conn-window/advertised-differs-from-wire/after-"+mon.lastKind, "%s: sc.inflow.avail=%d but the window advertised on the wire (initial + WINDOW_UPDATEs - DATA) is %d", ctx, snap.ConnInAvail, mon.connView)
			return
		}
		if snap.ConnInUnsent >= InflowMinRefresh && snap.ConnInUnsent >= snap.ConnInAvail {
			w.Failf(P+"conn-credit/withheld-beyond-batching-rule", "%s: unsent=%d avail=%d", ctx, snap.ConnInUnsent, snap.ConnInAvail)
		}
		if len(snap.Streams) == 0 {
			// "once all bodies are fully read or closed the peer's view of the
			// connection receive window is back to its configured size" (modulo
			// the documented batching below inflowMinRefresh).
			gap := mon.cfgConn - mon.connView
			if gap < 0 || gap >= InflowMinRefresh {
				w.Failf(P+"conn-window/not-restored-with-no-open-streams/after-"+mon.lastKind, "%s: no open streams, client's view of the connection receive window is %d, configured %d", ctx, mon.connView, mon.cfgConn)
			}
		}
		for _, ss := range snap.Streams {
			s := mon.streams[ss.ID]
			if s == nil || s.excess || s.irregular {
				continue
			}
			if int64(ss.InAvail) != s.view {
				w.Failf(P+"stream-window/advertised-differs-from-wire/after-"+mon.lastKind, "%s: stream %d st.inflow.avail=%d but the window advertised on the wire is %d", ctx, ss.ID, ss.InAvail, s.view)
			}
			streamCredit(ctx, ss)
		}
	}

	// HOLD … REL: the application's ConnState(StateIdle) callback is slow; the
	// serve loop stays inside closeStream of the last stream. The real state
	// (env.hookParked) decides what can be done meanwhile: handler commands
	// only, and no white-box snapshot (it needs the serve loop).
	readWhileParked := false
	relKind := func() string {
		if readWhileParked {
			return "REL-after-R-while-close-suspended"
		}
		return "REL"
	}
	release := func(ctx string) {
		env.releaseHook()
		readWhileParked = false
		for i := 0; i < 64; i++ {
			n := len(res.trace)
			step(ctx)
			if len(res.trace) == n || w.Failed() {
				break
			}
		}
	}

	nextID := uint32(1)
	npings := byte(0)
	for i, es := range cs.Evs {
		ev, err := c08srvParse(es)
		if err != nil {
			return res, err.Error()
		}
		if env.connClosed {
			break
		}
		ctx := fmt.Sprintf("event %d %s", i, es)
		id := uint32(ev.arg(0))
		s := mon.streams[id]
		applied := true
		kind := ev.K
		var expectFC *c10sStream
		expectFCConn := false
		var sentInWindow *c10sStream
		parked := env.hookParked.Load()
		if parked && ev.K != "R" && ev.K != "C" && ev.K != "REL" {
			res.skipped++
			continue
		}
		switch ev.K {
		case "HOLD":
			if blocked || env.hookArmed.Load() {
				applied = false
				break
			}
			env.holdIdleHook()
		case "REL":
			if !parked {
				applied = false
				break
			}
			kind = relKind()
		case "H":
			if nextID > 3 || (mon.goaway && mon.goawayCode != ErrCodeNo) {
				applied = false
				break
			}
			id = nextID
			nextID += 2
			ns := &c10sStream{id: id, view: mon.cfgStr, cl: ev.arg(0), acceptOpen: true, ignored: mon.goaway}
			mon.streams[id] = ns
			var extra []string
			if ns.cl >= 0 {
				extra = []string{"content-length", fmt.Sprint(ns.cl)}
			}
			env.headers(id, false, extra...)
			if ns.ignored {
				kind = "H-after-goaway"
			}
		case "D", "DR", "DRP":
			if s == nil || s.endIgnored {
				applied = false
				break
			}
			ln, fl, pad, end := c10Frame(ev, s.view, mon.connView)
			if ev.K != "D" {
				if !s.clientOpen() || ln < 0 || fl > 1<<20 || pad > 255 {
					applied = false
					break
				}
			}
			inWin := fl <= mon.connView && (!s.clientOpen() || fl <= s.view)
			if !inWin && !mode.enforce {
				applied = false
				break
			}
			switch {
			case !inWin:
				kind = "D-beyond-window"
			case s.ignored:
				kind = "D-on-stream-after-goaway"
			case mon.goaway && mon.goawayCode != ErrCodeNo:
				kind = "D-after-error-goaway"
			case s.cliRST:
				kind = "D-after-client-reset"
			case s.srvRST:
				kind = "D-after-server-reset"
			case s.cliEnded:
				kind = "D-after-END_STREAM"
			case s.bodyClosed:
				kind = "D-after-body-close"
			case s.cl >= 0 && int64(s.sent)+ln > s.cl:
				kind = "D-past-content-length"
			case pad >= 0:
				kind = "D-padded"
			}
			if blocked && inWin && !env.connClosed {
				// White-box classification only (outcome statistics and the
				// situation named in a signature): which state is the stream
				// in on the server, whose frames the client has not seen?
				if snap := env.st.sc.C08srvSnapshot(); snap.OK {
					inTable := false
					for _, ss := range snap.Streams {
						if ss.ID != id {
							continue
						}
						inTable = true
						if ss.ResetQueued {
							kind = "D-while-reset-queued"
						} else if call := env.call(id); call != nil && call.returned.Load() {
							kind = "D-while-response-end-queued"
						}
					}
					if !inTable && s.clientOpen() {
						kind = "D-after-unseen-close"
					}
				}
				if blkKinds == nil {
					blkKinds = map[string]bool{}
				}
				blkKinds[kind] = true
			}
			res.refundPaths[kind] = true
			data := c08srvPattern(s.sent, int(ln))
			if !inWin {
				if pad >= 0 && ln <= mon.connView && (!s.clientOpen() || ln <= s.view) {
					// the payload alone would fit: only counting the padding puts the frame outside
					res.refundPaths["D-beyond-window-by-padding-only"] = true
				}
				res.excessSent = true
				s.excess = true
				if fl > mon.connView {
					mon.excessConn = true
					expectFCConn = true
				}
				expectFC = s
			} else {
				if s.clientOpen() && !s.ignored && !(mon.goaway && mon.goawayCode != ErrCodeNo) && !s.overCL && !(s.cl >= 0 && int64(s.sent)+ln > s.cl) {
					sentInWindow = s
					if s.acceptOpen && !s.bodyClosed {
						s.accepted += int(ln)
					}
				} else {
					s.acceptOpen = false
				}
				if s.cl >= 0 && int64(s.sent)+ln > s.cl {
					s.overCL = true
				}
			}
			s.sent += int(ln)
			mon.connView -= fl
			if s.clientOpen() {
				s.view -= fl
			} else {
				s.irregular = true
			}
			res.dataSent++
			var werr error
			if pad >= 0 {
				// a non-nil empty padding still sets PADDED (pad-length byte 0)
				werr = env.st.fr.WriteDataPadded(id, end, data, make([]byte, pad))
			} else {
				werr = env.st.fr.WriteData(id, end, data)
			}
			env.writeErr(werr)
			if end {
				if s.clientOpen() && s.bodyClosed && ln > 0 {
					s.endIgnored = true
				}
				s.cliEnded = true
			}
		case "R", "C", "DONE", "P":
			call := env.call(id)
			if s == nil || call == nil || !call.idle() {
				applied = false
				break
			}
			switch ev.K {
			case "R":
				n := int(ev.arg(1))
				env.do(call, func() {
					buf := make([]byte, n)
					k, err := call.req.Body.Read(buf)
					call.readBuf = append(call.readBuf, buf[:k]...)
					call.readErr = err
					if err == io.EOF {
						call.readEOF = true
					}
				})
				if parked {
					kind = "R-while-close-suspended"
					res.refundPaths[kind] = true
					readWhileParked = true
				} else if s.cliRST || s.srvRST {
					kind = "R-after-reset"
				} else if blocked && !call.returned.Load() && !env.connClosed {
					// The client is not reading and cannot have seen a reset;
					// white-box: the handler is still running but the server
					// has removed the stream from its table, which only a
					// RST_STREAM it generated itself does.
					if snap := env.st.sc.C08srvSnapshot(); snap.OK {
						inTable := false
						for _, ss := range snap.Streams {
							inTable = inTable || ss.ID == id
						}
						if !inTable {
							kind = "R-after-reset"
						}
					}
				}
			case "C":
				s.bodyClosed = true
				env.do(call, func() { call.req.Body.Close() })
			case "DONE":
				env.finish(call)
			case "P":
				env.do(call, func() {
					call.panicked = true
					panic(http.ErrAbortHandler)
				})
			}
		case "RST":
			if s == nil || !s.clientOpen() && !s.cliEnded || s.cliRST || s.srvRST {
				applied = false
				break
			}
			s.cliRST = true
			env.writeErr(env.st.fr.WriteRSTStream(id, ErrCodeCancel))
		case "T":
			if s == nil || !s.clientOpen() {
				applied = false
				break
			}
			s.cliEnded = true
			env.writeErr(env.st.fr.WriteHeaders(HeadersFrameParam{
				StreamID:      id,
				BlockFragment: env.st.encodeHeaderRaw("x-c10-trailer", "v"),
				EndStream:     true,
				EndHeaders:    true,
			}))
		case "G":
			if mon.goaway {
				applied = false
				break
			}
			// WINDOW_UPDATE on an idle stream: connection error PROTOCOL_ERROR
			env.writeErr(env.st.fr.WriteWindowUpdate(99, 1))
		case "GS":
			if mon.goaway {
				applied = false
				break
			}
			env.st.sc.StartGracefulShutdown()
		case "BLK":
			nc, ok := env.st.cc.(*synctestNetConn)
			if blocked || !ok {
				applied = false
				break
			}
			nc.SetReadBufferSize(0)
			blocked = true
		case "UNB":
			if !blocked {
				applied = false
				break
			}
			kind = unbKind()
		case "PING":
			npings++
			env.writeErr(env.st.fr.WritePing(false, [8]byte{'c', '1', '0', 0, 0, 0, 0, npings}))
		default:
			return res, "unknown event " + es
		}
		if !applied {
			res.skipped++
			continue
		}
		res.applied++
		mon.lastKind = kind
		switch ev.K {
		case "UNB":
			unblock(ctx)
		case "REL":
			release(ctx)
		default:
			step(ctx)
		}
		if env.harnessErr != "" {
			return
		}
		if env.hookParked.Load() {
			if !parked {
				res.hookParks++
			}
			continue // no quiescent point: closeStream is half done
		}
		if mode.enforce {
			if expectFC != nil {
				ok := (expectFC.srvRST && expectFC.srvRSTCode == ErrCodeFlowControl) || (mon.goaway && mon.goawayCode == ErrCodeFlowControl)
				if !ok {
					which := "stream"
					if expectFCConn {
						which = "connection"
					}
					w.Failf(P+"enforce/no-flow-control-error/beyond-"+which+"-window", "%s: DATA beyond the advertised %s window was not answered with FLOW_CONTROL_ERROR (stream reset=%v code=%v, goaway=%v code=%v)", ctx, which, expectFC.srvRST, expectFC.srvRSTCode, mon.goaway, mon.goawayCode)
				}
			}
			if sentInWindow != nil {
				if (sentInWindow.srvRST && sentInWindow.srvRSTCode == ErrCodeFlowControl) || (mon.goaway && mon.goawayCode == ErrCodeFlowControl) {
					w.Failf(P+"enforce/in-window-data-rejected/after-"+mon.lastKind, "%s: DATA inside both advertised windows was answered with FLOW_CONTROL_ERROR", ctx)
				}
			}
		}
		if w.Failed() {
			return
		}
		quiescent(ctx)
		if w.Failed() || env.harnessErr != "" {
			return
		}
		if expectFC != nil {
			break // an out-of-window frame ends the case (the client's view is undefined afterwards)
		}
	}

	if env.hookParked.Load() && !w.Failed() && env.harnessErr == "" {
		// Never leave a case inside the callback: it returns, and the clauses
		// are evaluated.
		mon.lastKind = relKind()
		release("final REL")
		if env.harnessErr != "" || w.Failed() {
			return
		}
		if !env.connClosed {
			quiescent("final REL")
		}
		if w.Failed() || env.harnessErr != "" {
			return
		}
	}

	if blocked && !env.connClosed && !w.Failed() && env.harnessErr == "" {
		// Never leave a case with the server's writer stuck: the client
		// resumes reading, and the clauses about its view are evaluated.
		mon.lastKind = unbKind()
		unblock("final UNB")
		if env.harnessErr != "" || w.Failed() {
			return
		}
		quiescent("final UNB")
		if w.Failed() || env.harnessErr != "" {
			return
		}
	}

	// C11: everything sent inside the windows on a stream that accepted it must
	// be readable by the handler, and nothing beyond it.
	if mode.enforce && !env.connClosed {
		for id, s := range mon.streams {
			call := env.call(id)
			if call == nil || !call.idle() || s.bodyClosed {
				continue
			}
			for round := 0; round < 4 && call.idle(); round++ {
				remaining := s.accepted - len(call.readBuf)
				probe := remaining
				if probe <= 0 {
					if !(s.excess || s.cliEnded || s.cliRST || s.srvRST) {
						break // a Read would block forever: nothing more may arrive
					}
					probe = 64
				}
				before := len(call.readBuf)
				call.readErr = nil
				env.do(call, func() {
					buf := make([]byte, probe)
					k, err := call.req.Body.Read(buf)
					call.readBuf = append(call.readBuf, buf[:k]...)
					call.readErr = err
				})
				step("final drain")
				if len(call.readBuf) == before {
					break
				}
			}
			if env.harnessErr != "" {
				return
			}
			checkReads("final drain")
			if w.Failed() {
				return
			}
			if call.idle() && !s.overCL && !s.cliRST && !s.srvRST && !s.excess && !mon.excessConn && !mon.goaway {
				if len(call.readBuf) < s.accepted {
					w.Failf(P+"delivery/in-window-bytes-not-delivered", "final drain: stream %d: %d bytes were sent inside the advertised windows but the handler could read only %d (last error %v)", id, s.accepted, len(call.readBuf), call.readErr)
				}
			}
		}
	}
	return
}

func abs64(v int64) int64 {
	if v < 0 {
		return -v
	}
	return v
}

func c10srvCheck(c *vx.Ctx, mode c10sMode) func(w *vx.W, cs c08srvCase) {
	return func(w *vx.W, cs c08srvCase) {
		var res c10sResult
		c08srvBubble(c, "case", func(t testing.TB) string {
			var herr string
			res, herr = c10srvRunCase(w, t, cs, mode)
			return herr
		})
		c.AddStates(1)
		c.AddTraces(1)
		c.AddTransitions(int64(res.applied))
		if res.dataSent > 0 {
			w.Nontrivial()
		}
		for k := range res.refundPaths {
			w.Outcome("srv:" + k)
		}
		switch {
		case res.excessSent && res.fcErrSeen:
			w.Outcome("srv:excess-rejected")
		case res.wuSeen > 1:
			w.Outcome("srv:window-update-seen")
		case res.bytesDelivered > 0:
			w.Outcome("srv:bytes-delivered")
		}
		if res.skipped > 0 {
			w.Outcome("srv:model-real-disagreement-skipped-event")
		}
		if res.unblocked > 0 {
			w.Outcome("srv:client-stopped-and-resumed-reading")
		}
		if res.hookParks > 0 {
			w.Outcome("srv:close-suspended-in-connstate-callback")
		}
	}
}

// c10srvAlphabet builds the event menu (simplest first).
func c10srvAlphabet(cls []int64, data [][3]int64, reads []int64, extras []string, rel []int64) []c08srvEv {
	var a []c08srvEv
	for _, cl := range cls {
		a = append(a, c08srvEv{K: "H", A: []int64{cl}})
	}
	ids := []int64{1, 3}
	for _, id := range ids {
		for _, d := range data {
			a = append(a, c08srvEv{K: "D", A: []int64{id, d[0], d[1], d[2]}})
		}
		for _, r := range rel {
			a = append(a, c08srvEv{K: "DR", A: []int64{id, r, 0}})
		}
	}
	for _, id := range ids {
		for _, n := range reads {
			a = append(a, c08srvEv{K: "R", A: []int64{id, n}})
		}
	}
	for _, k := range extras {
		if k == "G" || k == "GS" || k == "BLK" || k == "UNB" || k == "PING" || k == "HOLD" || k == "REL" {
			a = append(a, c08srvEv{K: k})
			continue
		}
		for _, id := range ids {
			a = append(a, c08srvEv{K: k, A: []int64{id}})
		}
	}
	return a
}

type c10srvPart struct {
	name  string
	cfg   c08srvCfg
	seed  []string
	alpha []c08srvEv
	depth int
}

func c10srvRunParts(c *vx.Ctx, mode c10sMode, parts []c10srvPart) {
	for _, p := range parts {
		p := p
		completed := 0
		vx.Enumerate(c, p.name, vx.Opts{Serial: true, Crumb: true},
			func(yield func(c08srvCase) bool) {
				c10Gen(p.cfg, p.seed, p.alpha, p.depth, mode.enforce, func(d int) { completed = d }, yield)
			},
			c10srvCheck(c, mode))
		if completed < p.depth && !c.Replaying() {
			c.Cap(fmt.Sprintf("part %s: depth %d of %d completed", p.name, completed, p.depth))
		}
		c.Note(p.name+".depth", p.depth)
	}
}
