//go:build !(go1.27 && !http2legacy)

package http2_test

// Client parts of C10 (inbound flow-control credit is never leaked) and C11
// (the advertised receive windows are enforced) on the h2cli harness
// (c09cli_common_test.go). The harness is a server that sends responses and
// also the application (Read / Close of response bodies, request cancel).
//
// Monitor = the server's view of the client's receive windows (RFC 7540
// §6.9): advertised initial value, minus the flow-controlled length of every
// DATA frame sent, plus every WINDOW_UPDATE received.

import (
	"bytes"
	"fmt"
	"testing"
	"testing/synctest"

	. "golang.org/x/net/http2"
	"golang.org/x/net/internal/zzverif/vx"
)

// ---------------------------------------------------------------------------
// Monitor

type c10cStream struct {
	id        uint32
	view      int64
	respSent  bool
	respEnd   bool // we sent END_STREAM
	cl        int64
	sent      int // payload bytes sent (pattern offset)
	accepted  int // payload bytes sent in-window while the stream accepted DATA
	regular   bool
	srvRST    bool // we (the server) reset it
	cliRST    bool // the client reset it
	cliRSTCode ErrCode
	cancelled bool
	excess    bool
	overCL    bool
	irregular bool
}

// srvOpen: the server may legitimately send DATA.
func (s *c10cStream) srvOpen() bool {
	return s.respSent && !s.respEnd && !s.srvRST && !s.cliRST
}

type c10cMon struct {
	cfgConn, cfgStr int64
	connView        int64
	streams         map[uint32]*c10cStream
	goaway          bool
	goawayCode      ErrCode
	lastKind        string
	excessConn      bool
}

// ---------------------------------------------------------------------------
// Predictive model (pruning only, approximate).

type c10cmStream struct {
	opened   bool
	hasBody  bool // request with an open request body (stream stays registered after END_STREAM)
	resp     bool
	srvOpen  bool
	dead     bool // reset/cancelled (either side)
	app      int  // 0 in RoundTrip, 1 idle with response, 2 blocked in Read, 3 no response (failed)
	buffered int64
	closed   bool
	pipeErr  bool
	cl, recv int64
	view     int64
	wantRead int64
}

type c10cModel struct {
	cfgConn, cfgStr int64
	connView        int64
	terminal        bool
	s               [2]c10cmStream
}

func c10cCfgWins(cfg c09cliCfg) (conn, str int64) {
	conn, str = 1<<30, 4<<20
	if cfg.ConnWin >= 65535 {
		conn = int64(cfg.ConnWin)
	}
	if cfg.StrWin >= 1 {
		str = int64(cfg.StrWin)
	}
	return conn + 65535, str
}

func c10cNewModel(cfg c09cliCfg) *c10cModel {
	m := &c10cModel{}
	m.cfgConn, m.cfgStr = c10cCfgWins(cfg)
	m.connView = m.cfgConn
	return m
}

func (m *c10cModel) wake(s *c10cmStream) {
	if s.app != 2 {
		return
	}
	if s.buffered > 0 {
		k := min(s.wantRead, s.buffered)
		s.buffered -= k
		m.refund(s, k)
		s.app = 1
	} else if s.pipeErr {
		s.app = 1
	}
}

// refund approximates the window replenishment (ignores batching: views are
// only used to decide whether a DATA event fits, and an event that does not
// fit at run time is skipped).
func (m *c10cModel) refund(s *c10cmStream, k int64) {
	m.connView += k
	if s.srvOpen {
		s.view += k
	}
}

func (m *c10cModel) kill(s *c10cmStream) {
	s.dead, s.srvOpen, s.pipeErr = true, false, true
	if s.app == 0 {
		s.app = 3
	}
	m.wake(s)
}

func (m *c10cModel) enabled(ev c08srvEv, enforce bool) bool {
	if m.terminal {
		return false
	}
	idx := func() *c10cmStream { return &m.s[c08Idx(ev.arg(0))] }
	switch ev.K {
	case "REQ":
		return !m.s[1].opened
	case "RESP":
		s := idx()
		return s.opened && !s.resp && !s.dead
	case "D":
		s := idx()
		if !s.opened {
			return false
		}
		fl := c10FlowLen(ev.arg(1), ev.arg(2))
		if fl > m.connView {
			return enforce && s.srvOpen
		}
		if s.srvOpen {
			return fl <= s.view || enforce
		}
		return ev.arg(1) == 4 && ev.arg(2) == 0 && ev.arg(3) == 0
	case "DR":
		s := idx()
		if !s.opened || !s.srvOpen {
			return false
		}
		n := c10RelLen(s.view, m.connView, true, ev.arg(1))
		return n >= 0 && n <= 16384
	case "DRP": // PADDED boundary-relative frame, see c10Frame
		s := idx()
		if !s.opened || !s.srvOpen || ev.arg(2) < 1 || ev.arg(2) > 256 {
			return false
		}
		ln, fl, _, _ := c10Frame(ev, s.view, m.connView)
		return ln >= 0 && fl <= 16384
	case "DRC": // connection-window-relative frame on a stream that takes no DATA (any more), see c10cDRC
		s := idx()
		if !s.opened || s.srvOpen {
			return false
		}
		n := m.connView + ev.arg(1)
		return n >= 0 && n <= 16384 && (n <= m.connView || enforce)
	case "R":
		s := idx()
		return s.app == 1 && !s.closed
	case "C":
		s := idx()
		return s.app == 1 && !s.closed
	case "CANCEL":
		s := idx()
		return s.opened && !s.dead && !s.closed
	case "RST":
		s := idx()
		return s.opened && !s.dead && !(s.resp && !s.srvOpen && !s.hasBody)
	case "RD":
		s := idx()
		return s.srvOpen && !s.dead
	}
	return false
}

func (m *c10cModel) apply(ev c08srvEv) {
	idx := func() *c10cmStream { return &m.s[c08Idx(ev.arg(0))] }
	switch ev.K {
	case "REQ":
		i := 0
		if m.s[0].opened {
			i = 1
		}
		m.s[i] = c10cmStream{opened: true, hasBody: ev.arg(0) == 1, view: m.cfgStr}
	case "RESP":
		s := idx()
		s.resp, s.cl = true, ev.arg(1)
		if s.app == 0 {
			s.app = 1
		}
		if ev.arg(2) != 0 {
			s.pipeErr = true
		} else {
			s.srvOpen = true
		}
	case "D", "DR", "DRP", "DRC":
		s := idx()
		if ev.K == "DRC" {
			ev = c10cDRC(ev, m.connView)
		}
		ln, fl, _, end := c10Frame(ev, s.view, m.connView)
		if fl > m.connView || (s.srvOpen && fl > s.view) {
			m.terminal = true
			return
		}
		if !s.srvOpen {
			// DATA before HEADERS / after END_STREAM / on a dead stream: discarded
			if !s.dead && (!s.resp || s.hasBody) {
				m.kill(s) // still registered: the client resets the stream
			}
			return
		}
		m.connView -= fl
		s.view -= fl
		m.refund(s, fl-ln)
		if s.closed {
			m.refund(s, ln)
		} else {
			s.buffered += ln
			s.recv += ln
		}
		if end {
			s.srvOpen = false
			s.pipeErr = true
		}
		m.wake(s)
	case "R":
		s := idx()
		if s.buffered > 0 {
			k := min(ev.arg(1), s.buffered)
			s.buffered -= k
			m.refund(s, k)
			if s.cl >= 0 && s.recv > s.cl {
				m.kill(s) // truncated: the client aborts the stream
			}
		} else if !s.pipeErr {
			s.app = 2
			s.wantRead = ev.arg(1)
		}
	case "C":
		s := idx()
		s.closed = true
		m.connView += s.buffered
		s.buffered = 0
		m.kill(s)
	case "CANCEL", "RST", "RD":
		m.kill(idx())
	}
}

// c10cDRC resolves DRC(s, rel) into the fixed unpadded frame D(s, w+rel, 0, 0)
// where w is the sender's view of the CONNECTION receive window alone. DRC is
// only sent on a stream the client opened that takes no DATA (any more):
// cancelled / body closed (the Transport has reset and forgotten it; DATA that
// was in flight is legal, RFC 9113 §5.1 "closed"), before the response
// HEADERS, after END_STREAM or after the server's own RST_STREAM. Such a frame
// is discarded but still counts against the connection window (§6.9).
func c10cDRC(ev c08srvEv, connView int64) c08srvEv {
	return c08srvEv{K: "D", A: []int64{ev.arg(0), connView + ev.arg(1), 0, 0}}
}

func (m *c10cModel) clone() *c10cModel { c := *m; return &c }

func c10cGen(cfg c09cliCfg, seed []string, alpha []c08srvEv, maxDepth int, enforce bool, onDepth func(int), yield func(c09cliCase) bool) bool {
	base := c10cNewModel(cfg)
	for _, s := range seed {
		ev, err := c08srvParse(s)
		if err != nil {
			panic(err)
		}
		base.apply(ev)
	}
	for depth := 1; depth <= maxDepth; depth++ {
		path := append([]string(nil), seed...)
		var rec func(m *c10cModel, d int) bool
		rec = func(m *c10cModel, d int) bool {
			if d == depth {
				return yield(c09cliCase{Cfg: cfg, SeedLen: len(seed), Evs: append([]string(nil), path...)})
			}
			for _, ev := range alpha {
				if !m.enabled(ev, enforce) {
					continue
				}
				m2 := m.clone()
				m2.apply(ev)
				path = append(path, c08EvString(ev))
				ok := rec(m2, d+1)
				path = path[:len(path)-1]
				if !ok {
					return false
				}
			}
			return true
		}
		if !rec(base, 0) {
			return false
		}
		if onDepth != nil {
			onDepth(depth)
		}
	}
	return true
}

// ---------------------------------------------------------------------------
// Runner

func c10cliRunCase(w *vx.W, t testing.TB, cs c09cliCase, mode c10sMode) (res c10sResult, harnessErr string) {
	res.refundPaths = map[string]bool{}
	env := c09cliNew(t, cs.Cfg)
	defer func() {
		env.teardown()
		if harnessErr == "" {
			harnessErr = env.harnessErr
		}
	}()
	P := mode.id + "/cli/"
	mon := &c10cMon{connView: 65535, streams: map[uint32]*c10cStream{}, lastKind: "preface"}
	mon.cfgConn, mon.cfgStr = c10cCfgWins(cs.Cfg)

	onFrame := func(f c08srvFrame, ctx string) {
		switch f.Type {
		case FrameHeaders:
			if mon.streams[f.Stream] == nil {
				mon.streams[f.Stream] = &c10cStream{id: f.Stream, view: mon.cfgStr, cl: -1, regular: true}
			}
		case FrameWindowUpdate:
			res.wuSeen++
			if f.Stream == 0 {
				mon.connView += int64(f.Inc)
				if mode.leak && mon.connView > c08MaxWin {
					w.Failf(P+"window-update/conn-window-above-2^31-1", "%s: %v raises the connection receive window to %d", ctx, f, mon.connView)
				} else if mode.leak && mon.connView > mon.cfgConn {
					w.Failf(P+"window-update/conn-window-above-configured/after-"+mon.lastKind, "%s: %v raises the server's view of the connection receive window to %d > configured %d", ctx, f, mon.connView, mon.cfgConn)
				}
			} else if s := mon.streams[f.Stream]; s != nil {
				s.view += int64(f.Inc)
				if mode.leak && s.view > mon.cfgStr {
					w.Failf(P+"window-update/stream-window-above-configured/after-"+mon.lastKind, "%s: %v raises the server's view of the stream receive window to %d > configured %d", ctx, f, s.view, mon.cfgStr)
				}
			}
		case FrameRSTStream:
			if s := mon.streams[f.Stream]; s != nil {
				s.cliRST, s.cliRSTCode = true, f.Code
			}
			if f.Code == ErrCodeFlowControl {
				res.fcErrSeen = true
			}
		case FrameGoAway:
			mon.goaway, mon.goawayCode = true, f.Code
			if f.Code == ErrCodeFlowControl {
				res.fcErrSeen = true
			}
		case FramePing:
			// RST_STREAM may be accompanied by a PING; answering it is not needed here
		}
	}
	step := func(ctx string) {
		synctest.Wait()
		for _, f := range env.drain() {
			res.trace = append(res.trace, f.String())
			onFrame(f, ctx)
		}
		if env.wireErr != "" {
			w.Failf(P+"wire/unparseable-client-output", "%s: reading the client's output failed: %s", ctx, env.wireErr)
		}
	}
	step("preface")
	env.wr(env.tc.fr.WriteSettings())
	env.wr(env.tc.fr.WriteSettingsAck())
	step("preface")
	if w.Failed() || env.harnessErr != "" {
		return
	}
	if mode.enforce && !mode.leak {
		// C11: the windows the client must enforce are the ones it advertised
		// on the wire, whatever its configuration says: connection = the
		// protocol default 65535 + every WINDOW_UPDATE(0) received so far
		// (the preface one is an increment, RFC 9113 6.9.2), stream =
		// SETTINGS_INITIAL_WINDOW_SIZE (65535 when absent). The generator
		// sizes its pruning model from the configuration; events it got
		// wrong are re-sized or skipped at run time against these views.
		mon.cfgConn, mon.cfgStr = mon.connView, 65535
		if v, ok := env.cliSettings[SettingInitialWindowSize]; ok {
			mon.cfgStr = int64(v)
		}
	} else {
		if mon.connView != mon.cfgConn {
			return res, fmt.Sprintf("client advertised a connection window of %d, harness expected %d", mon.connView, mon.cfgConn)
		}
		if v, ok := env.cliSettings[SettingInitialWindowSize]; !ok || int64(v) != mon.cfgStr {
			return res, fmt.Sprintf("client advertised INITIAL_WINDOW_SIZE %d (present=%v), harness expected %d", v, ok, mon.cfgStr)
		}
	}

	checkReads := func(ctx string) {
		for _, r := range env.reqs {
			s := mon.streams[r.sid.Load()]
			if s == nil {
				continue
			}
			got := r.readBuf
			if !mode.enforce {
				continue
			}
			if len(got) > s.accepted {
				w.Failf(P+"delivery/more-than-in-window-bytes-delivered", "%s: stream %d application read %d bytes but only %d were sent inside the advertised windows", ctx, s.id, len(got), s.accepted)
				continue
			}
			if !bytes.Equal(got, c08srvPattern(0, len(got))) {
				w.Failf(P+"delivery/bytes-out-of-order-or-corrupt", "%s: stream %d application read bytes that are not the prefix of what was sent", ctx, s.id)
			}
		}
	}

	quiescent := func(ctx string) {
		checkReads(ctx)
		if env.connClosed || !mode.leak || mon.excessConn {
			return
		}
		snap := env.tc.cc.C09cliSnapshot()
		if snap.Closed {
			return
		}
		if int64(snap.StreamRecvWin) != mon.cfgStr {
			env.herr("configured stream window %d differs from the harness's %d", snap.StreamRecvWin, mon.cfgStr)
			return
		}
		var buffered int64
		openBodies := 0
		for _, r := range env.reqs {
			if r.busy.Load() && !r.rtDone.Load() {
				continue // still inside RoundTrip: r.resp is not published yet
			}
			if r.resp == nil || r.closed {
				continue
			}
			if n, ok := C09cliBodyBuffered(r.resp.Body); ok {
				buffered += int64(n)
				if n > 0 {
					openBodies++
				}
			}
		}
		total := int64(snap.ConnInAvail) + int64(snap.ConnInUnsent) + buffered
		if total != mon.cfgConn {
			kind := "leak"
			if total > mon.cfgConn {
				kind = "over-credit"
			}
			trigger := "after-" + mon.lastKind
			for _, s := range mon.streams {
				if s.overCL && kind == "leak" {
					// one abstract situation whatever the order of Read and DATA
					trigger = "past-content-length"
				}
			}
			w.Failf(P+"conn-credit/"+kind+"/"+trigger, "%s: cc.inflow.avail(%d)+unsent(%d)+unread buffered(%d) = %d, configured connection window %d: %d bytes of connection-level credit %s", ctx, snap.ConnInAvail, snap.ConnInUnsent, buffered, total, mon.cfgConn, abs64(total-mon.cfgConn), map[string]string{"leak": "are lost", "over-credit": "were returned twice"}[kind])
			return
		}
		if mon.goaway {
			return
		}
		if int64(snap.ConnInAvail) != mon.connView {
			kind := "receiver-did-not-account-data"
			if int64(snap.ConnInAvail) < mon.connView {
				kind = "receiver-window-below-wire-view"
			}
			w.Failf(P+"conn-window/advertised-differs-from-wire/"+kind+"/after-"+mon.lastKind, "%s: cc.inflow.avail=%d but the window advertised on the wire (initial + WINDOW_UPDATEs - DATA) is %d", ctx, snap.ConnInAvail, mon.connView)
			return
		}
		if snap.ConnInUnsent >= InflowMinRefresh && snap.ConnInUnsent >= snap.ConnInAvail {
			w.Failf(P+"conn-credit/withheld-beyond-batching-rule", "%s: unsent=%d avail=%d", ctx, snap.ConnInUnsent, snap.ConnInAvail)
		}
		if openBodies == 0 {
			gap := mon.cfgConn - mon.connView
			if gap < 0 || gap >= InflowMinRefresh {
				w.Failf(P+"conn-window/not-restored-with-no-unread-bodies/after-"+mon.lastKind, "%s: no unread response data, server's view of the connection receive window is %d, configured %d", ctx, mon.connView, mon.cfgConn)
			}
		}
		for _, ss := range snap.Streams {
			s := mon.streams[ss.ID]
			if s == nil || s.excess || s.irregular {
				continue
			}
			if !ss.PastHeaders || ss.ReadClosed || ss.ReadAborted || ss.Aborted || ss.BufErr {
				continue
			}
			if int64(ss.InAvail) != s.view {
				w.Failf(P+"stream-window/advertised-differs-from-wire/after-"+mon.lastKind, "%s: stream %d cs.inflow.avail=%d but the window advertised on the wire is %d", ctx, ss.ID, ss.InAvail, s.view)
			}
			if tot := int64(ss.InAvail) + int64(ss.InUnsent) + int64(ss.BufLen); tot != mon.cfgStr {
				kind := "leak"
				if tot > mon.cfgStr {
					kind = "over-credit"
				}
				w.Failf(P+"stream-credit/"+kind+"/after-"+mon.lastKind, "%s: open stream %d: avail(%d)+unsent(%d)+buffered(%d)=%d, configured stream window %d", ctx, ss.ID, ss.InAvail, ss.InUnsent, ss.BufLen, tot, mon.cfgStr)
			}
		}
	}

	for i, es := range cs.Evs {
		ev, err := c08srvParse(es)
		if err != nil {
			return res, err.Error()
		}
		if env.connClosed {
			break
		}
		ctx := fmt.Sprintf("event %d %s", i, es)
		id := uint32(ev.arg(0))
		s := mon.streams[id]
		r := env.reqByStream(id)
		applied := true
		kind := ev.K
		var expectFC *c10cStream
		expectFCConn := false
		var sentInWindow *c10cStream
		closedSit := ""           // DRC only: why the stream takes no DATA
		sentInConnWindow := false // DRC only: frame inside the connection window (and the stream's last advertised window)
		switch ev.K {
		case "REQ":
			if len(env.reqs) >= 2 || mon.goaway {
				applied = false
				break
			}
			env.start(ev.arg(0) == 1)
		case "RESP":
			if s == nil || s.respSent || s.srvRST || s.cliRST {
				applied = false
				break
			}
			s.respSent, s.cl, s.respEnd = true, ev.arg(1), ev.arg(2) != 0
			var kv []string
			if s.cl >= 0 {
				kv = []string{"content-length", fmt.Sprint(s.cl)}
			}
			env.respHeaders(id, s.respEnd, kv...)
		case "D", "DR", "DRP", "DRC":
			if s == nil {
				applied = false
				break
			}
			relConn := ev.K == "DRC" // sized against the connection window on a stream that takes no DATA
			if relConn {
				if n := mon.connView + ev.arg(1); s.srvOpen() || n < 0 || n > 16384 {
					applied = false
					break
				}
				ev = c10cDRC(ev, mon.connView)
			}
			ln, fl, pad, end := c10Frame(ev, s.view, mon.connView)
			if ev.K != "D" {
				if !s.srvOpen() || ln < 0 || fl > 16384 || pad > 255 {
					applied = false
					break
				}
			}
			inWin := fl <= mon.connView && (!s.srvOpen() || fl <= s.view)
			if !inWin && (!mode.enforce || (!s.srvOpen() && !relConn)) {
				applied = false
				break
			}
			if relConn {
				// the abstract situation of the stream the frame is sent on
				switch {
				case s.cliRST || s.cancelled:
					closedSit = "stream-reset-by-client"
				case s.srvRST:
					closedSit = "stream-reset-by-server"
				case !s.respSent:
					closedSit = "stream-before-HEADERS"
				default:
					closedSit = "stream-after-END_STREAM"
				}
				res.refundPaths["D-conn-window-relative-on-"+closedSit] = true
				sentInConnWindow = inWin && fl <= s.view && !mon.goaway
			}
			switch {
			case !inWin:
				kind = "D-beyond-window"
			case s.cliRST:
				kind = "D-after-client-reset"
			case s.srvRST:
				kind = "D-after-server-reset"
			case !s.respSent:
				kind = "D-before-HEADERS"
			case s.respEnd:
				kind = "D-after-END_STREAM"
			case s.cancelled:
				kind = "D-after-cancel"
			case r != nil && r.closed:
				kind = "D-after-body-close"
			case s.cl >= 0 && int64(s.sent)+ln > s.cl:
				kind = "D-past-content-length"
			case pad >= 0:
				kind = "D-padded"
			}
			res.refundPaths[kind] = true
			data := c08srvPattern(s.sent, int(ln))
			if !inWin {
				if pad >= 0 && ln <= mon.connView && ln <= s.view {
					// the payload alone would fit: only counting the padding puts the frame outside
					res.refundPaths["D-beyond-window-by-padding-only"] = true
				}
				res.excessSent = true
				s.excess = true
				if fl > mon.connView {
					mon.excessConn = true
					expectFCConn = true
				}
				expectFC = s
			} else if s.srvOpen() && !mon.goaway {
				sentInWindow = s
				if mode.enforce && fl > 0 && fl == mon.connView {
					// the frame takes the last byte of the connection window advertised on the wire
					k := "D-fills-advertised-connection-window-exactly"
					for _, o := range mon.streams {
						if o != s && o.sent > 0 {
							k = "D-fills-advertised-connection-window-exactly/unread-data-on-several-streams"
						}
					}
					res.refundPaths[k] = true
				}
				if s.regular && !(r != nil && r.closed) && !s.cancelled {
					s.accepted += int(ln)
				}
				if s.cl >= 0 && int64(s.sent)+ln > s.cl {
					s.overCL = true
				}
			} else {
				s.regular = false
			}
			s.sent += int(ln)
			mon.connView -= fl
			if s.srvOpen() {
				s.view -= fl
			} else {
				s.irregular = true
			}
			res.dataSent++
			if pad >= 0 {
				// a non-nil empty padding still sets PADDED (pad-length byte 0)
				env.wr(env.tc.fr.WriteDataPadded(id, end, data, make([]byte, pad)))
			} else {
				env.wr(env.tc.fr.WriteData(id, end, data))
			}
			if end && s.srvOpen() {
				s.respEnd = true
			}
		case "R", "C":
			if s == nil || r == nil || !r.idle() || r.resp == nil || r.closed {
				applied = false
				break
			}
			if ev.K == "R" {
				n := int(ev.arg(1))
				if s.overCL {
					kind = "R-past-content-length"
				} else if s.cliRST || s.srvRST || s.cancelled {
					kind = "R-after-reset"
				}
				env.do(r, func() {
					buf := make([]byte, n)
					k, err := r.resp.Body.Read(buf)
					r.readBuf = append(r.readBuf, buf[:k]...)
					r.readErr = err
				})
			} else {
				r.closed = true
				if s.overCL {
					kind = "C-past-content-length"
				}
				env.do(r, func() { r.resp.Body.Close() })
			}
		case "CANCEL":
			if s == nil || r == nil || s.cancelled || r.closed {
				applied = false
				break
			}
			s.cancelled = true
			r.cancel()
			synctest.Wait()
		case "RST":
			if s == nil || s.srvRST || s.cliRST {
				applied = false
				break
			}
			s.srvRST = true
			env.wr(env.tc.fr.WriteRSTStream(id, ErrCodeCancel))
		case "RD":
			// RST_STREAM immediately followed by a DATA frame in one burst (no
			// quiescence in between): the DATA frame can reach the read loop
			// while the reset stream is still registered.
			if s == nil || !s.srvOpen() || mon.connView < 4 {
				applied = false
				break
			}
			kind = "RST+DATA-burst"
			res.refundPaths[kind] = true
			s.srvRST = true
			s.irregular, s.regular = true, false
			err1 := env.tc.fr.WriteRSTStream(id, ErrCodeCancel)
			err2 := env.tc.fr.WriteData(id, false, c08srvPattern(s.sent, 4))
			s.sent += 4
			mon.connView -= 4
			res.dataSent++
			if err1 != nil {
				env.wr(err1)
			} else {
				env.wr(err2)
			}
		default:
			return res, "unknown event " + es
		}
		if !applied {
			res.skipped++
			continue
		}
		res.applied++
		mon.lastKind = kind
		step(ctx)
		if env.harnessErr != "" {
			return
		}
		if mode.enforce {
			// The Transport fails the whole connection with the error; its
			// GOAWAY frame is written but not flushed before the close.
			readerFC := func() bool {
				if rerr, done := env.tc.cc.C09cliReaderErr(); done {
					if ce, isCE := rerr.(ConnectionError); isCE && ErrCode(ce) == ErrCodeFlowControl {
						return true
					}
				}
				return false
			}
			if expectFC != nil {
				ok := (expectFC.cliRST && expectFC.cliRSTCode == ErrCodeFlowControl) || (mon.goaway && mon.goawayCode == ErrCodeFlowControl)
				if !ok && readerFC() {
					ok = true
					res.fcErrSeen = true
				}
				if !ok && closedSit != "" && closedSit != "stream-reset-by-client" {
					// The frame also violates the stream state machine (DATA before
					// HEADERS, after END_STREAM, after the server's own RST_STREAM):
					// which of the two errors wins is not specified, so any
					// connection error is accepted; what is not accepted is a
					// connection that carries on beyond its window. (After the
					// client's RST_STREAM in-flight DATA is legal: strict oracle.)
					if rerr, done := env.tc.cc.C09cliReaderErr(); mon.goaway {
						ok = true
					} else if _, isCE := rerr.(ConnectionError); done && isCE {
						ok = true
					}
				}
				if !ok {
					which := "stream"
					if expectFCConn {
						which = "connection"
					}
					trigger := "beyond-" + which + "-window"
					if closedSit != "" {
						trigger += "/on-" + closedSit
					}
					w.Failf(P+"enforce/no-flow-control-error/"+trigger, "%s: DATA beyond the advertised %s window was not answered with FLOW_CONTROL_ERROR (stream reset=%v code=%v, goaway=%v code=%v)", ctx, which, expectFC.cliRST, expectFC.cliRSTCode, mon.goaway, mon.goawayCode)
				}
			}
			if sentInWindow != nil {
				// Rejection is visible on the wire (RST_STREAM / GOAWAY) or, as the
				// Transport does not flush its GOAWAY before closing, as the error
				// its read loop ended with (the error every in-flight request and
				// response body is failed with). Up to here the server has sent
				// only DATA inside both windows the client advertised on the wire
				// (an out-of-window frame ends the sequence), so a flow-control
				// error has no other possible cause.
				switch {
				case (sentInWindow.cliRST && sentInWindow.cliRSTCode == ErrCodeFlowControl) || (mon.goaway && mon.goawayCode == ErrCodeFlowControl):
					w.Failf(P+"enforce/in-window-data-rejected/after-"+mon.lastKind, "%s: DATA inside both advertised windows was answered with FLOW_CONTROL_ERROR", ctx)
				case readerFC():
					w.Failf(P+"enforce/in-window-data-rejected/connection-failed/after-"+mon.lastKind, "%s: DATA inside both advertised windows (after the frame the windows advertised on the wire, initial + WINDOW_UPDATEs - DATA, are: connection %d, stream %d) made the Transport fail the connection with FLOW_CONTROL_ERROR", ctx, mon.connView, sentInWindow.view)
				}
			}
			if sentInConnWindow {
				// DATA on a stream that takes no DATA (any more) is discarded, but inside
				// the connection window it is not a flow-control violation.
				if (s.cliRST && s.cliRSTCode == ErrCodeFlowControl) || (mon.goaway && mon.goawayCode == ErrCodeFlowControl) || readerFC() {
					w.Failf(P+"enforce/in-window-data-rejected/on-"+closedSit, "%s: DATA inside the advertised connection window (and the stream's last advertised window) was answered with FLOW_CONTROL_ERROR (stream reset code=%v, goaway=%v code=%v)", ctx, s.cliRSTCode, mon.goaway, mon.goawayCode)
				}
			}
		}
		if w.Failed() {
			return
		}
		quiescent(ctx)
		if w.Failed() || env.harnessErr != "" {
			return
		}
		if expectFC != nil {
			break
		}
	}

	if mode.enforce {
		for _, r := range env.reqs {
			s := mon.streams[r.sid.Load()]
			if s == nil || !r.idle() || r.resp == nil || r.closed {
				continue
			}
			for round := 0; round < 4 && r.idle(); round++ {
				remaining := s.accepted - len(r.readBuf)
				probe := remaining
				if probe <= 0 {
					if !(s.excess || mon.excessConn || s.respEnd || s.cliRST || s.srvRST) {
						break
					}
					probe = 64
				}
				before := len(r.readBuf)
				r.readErr = nil
				env.do(r, func() {
					buf := make([]byte, probe)
					k, err := r.resp.Body.Read(buf)
					r.readBuf = append(r.readBuf, buf[:k]...)
					r.readErr = err
				})
				step("final drain")
				if len(r.readBuf) == before {
					break
				}
			}
			if env.harnessErr != "" {
				return
			}
			checkReads("final drain")
			if w.Failed() {
				return
			}
			if r.idle() && !s.overCL && !s.cliRST && !s.srvRST && !s.cancelled && !s.excess && !mon.excessConn && !mon.goaway && !env.connClosed {
				if len(r.readBuf) < s.accepted {
					w.Failf(P+"delivery/in-window-bytes-not-delivered", "final drain: stream %d: %d bytes were sent inside the advertised windows but the application could read only %d (last error %v)", s.id, s.accepted, len(r.readBuf), r.readErr)
				}
			}
		}
	}
	for _, r := range env.reqs {
		res.bytesDelivered += len(r.readBuf)
	}
	return
}

func c10cliCheck(c *vx.Ctx, mode c10sMode) func(w *vx.W, cs c09cliCase) {
	return func(w *vx.W, cs c09cliCase) {
		var res c10sResult
		c08srvBubble(c, "case", func(t testing.TB) string {
			var herr string
			res, herr = c10cliRunCase(w, t, cs, mode)
			return herr
		})
		c.AddStates(1)
		c.AddTraces(1)
		c.AddTransitions(int64(res.applied))
		if res.dataSent > 0 {
			w.Nontrivial()
		}
		for k := range res.refundPaths {
			w.Outcome("cli:" + k)
		}
		switch {
		case res.excessSent && res.fcErrSeen:
			w.Outcome("cli:excess-rejected")
		case res.wuSeen > 1:
			w.Outcome("cli:window-update-seen")
		case res.bytesDelivered > 0:
			w.Outcome("cli:bytes-delivered")
		}
		if res.skipped > 0 {
			w.Outcome("cli:model-real-disagreement-skipped-event")
		}
	}
}

// c10cliAlphabet builds the client-side event menu (simplest first).
// resp entries are (content-length, END_STREAM); data entries (len, pad, END_STREAM).
func c10cliAlphabet(reqKinds []int64, resp [][2]int64, data [][3]int64, reads []int64, extras []string, rel []int64) []c08srvEv {
	var a []c08srvEv
	for _, k := range reqKinds {
		a = append(a, c08srvEv{K: "REQ", A: []int64{k}})
	}
	ids := []int64{1, 3}
	for _, id := range ids {
		for _, r := range resp {
			a = append(a, c08srvEv{K: "RESP", A: []int64{id, r[0], r[1]}})
		}
	}
	for _, id := range ids {
		for _, d := range data {
			a = append(a, c08srvEv{K: "D", A: []int64{id, d[0], d[1], d[2]}})
		}
		for _, r := range rel {
			a = append(a, c08srvEv{K: "DR", A: []int64{id, r, 0}})
		}
	}
	for _, id := range ids {
		for _, n := range reads {
			a = append(a, c08srvEv{K: "R", A: []int64{id, n}})
		}
	}
	for _, k := range extras {
		for _, id := range ids {
			a = append(a, c08srvEv{K: k, A: []int64{id}})
		}
	}
	return a
}

type c10cliPart struct {
	name  string
	cfg   c09cliCfg
	seed  []string
	alpha []c08srvEv
	depth int
}

func c10cliRunPartList(c *vx.Ctx, mode c10sMode, parts []c10cliPart) {
	for _, p := range parts {
		p := p
		completed := 0
		vx.Enumerate(c, p.name, vx.Opts{Serial: true, Crumb: true},
			func(yield func(c09cliCase) bool) {
				c10cGen(p.cfg, p.seed, p.alpha, p.depth, mode.enforce, func(d int) { completed = d }, yield)
			},
			c10cliCheck(c, mode))
		if completed < p.depth && !c.Replaying() {
			c.Cap(fmt.Sprintf("part %s: depth %d of %d completed", p.name, completed, p.depth))
		}
		c.Note(p.name+".depth", p.depth)
	}
}

// c10cliRunParts is the client part of C10.
func c10cliRunParts(c *vx.Ctx) {
	c.Rule("EV, client part: for each part (configured stream window 8 or default x seed prefix) every event sequence of depth 1..D after the seed over {REQ (GET, or POST whose body stays open so that the stream stays registered) (<=2 requests), response HEADERS(content-length none|5|10, END_STREAM?), DATA(stream, len, padding, END_STREAM) inside the server's view of both windows (also before HEADERS, after END_STREAM, on reset/cancelled/closed streams, beyond Content-Length), application Read(n), Body.Close, request cancel, server RST_STREAM, server RST_STREAM+DATA in one burst}; each sequence runs on a fresh real Transport ClientConn in its own synctest bubble; after every event at quiescence: white-box cc.inflow.avail+unsent+sum(unread bytes of open response bodies) == configured connection window, the same per open stream, advertised window == wire view, every WINDOW_UPDATE keeps the server's view <= configured and <= 2^31-1, and with no unread response data the server's view is within inflowMinRefresh of the configured window. non-trivial = at least one DATA frame was sent")
	small := c09cliCfg{StrWin: 8}
	large := c09cliCfg{}
	respQ := [][2]int64{{-1, 0}, {5, 0}}
	respT := [][2]int64{{-1, 0}, {5, 0}, {10, 0}, {-1, 1}}
	dSmallQ := [][3]int64{{1, 0, 0}, {4, 0, 0}, {0, 3, 0}, {4, 3, 0}, {4, 0, 1}, {0, 0, 1}}
	dSmallT := [][3]int64{{0, 0, 0}, {1, 0, 0}, {4, 0, 0}, {8, 0, 0}, {0, 3, 0}, {1, 3, 0}, {4, 3, 0}, {4, 0, 1}, {0, 0, 1}, {1, 3, 1}}
	dLargeQ := [][3]int64{{4, 0, 0}, {10, 0, 0}, {16384, 0, 0}, {4, 3, 0}, {10, 0, 1}}
	dLargeT := [][3]int64{{0, 0, 0}, {4, 0, 0}, {10, 0, 0}, {16384, 0, 0}, {4, 3, 0}, {16000, 3, 0}, {10, 0, 1}, {0, 0, 1}}
	ext := []string{"C", "CANCEL", "RST", "RD"}
	seedOpen := []string{"REQ(0)", "RESP(1,-1,0)", "D(1,4,0,0)"}
	seedCL := []string{"REQ(0)", "RESP(1,5,0)"}
	seedPost := []string{"REQ(1)", "RESP(1,-1,0)", "D(1,4,0,0)"}
	seedTwo := []string{"REQ(0)", "REQ(1)", "RESP(1,-1,0)", "RESP(3,5,0)", "D(1,4,0,0)"}
	seedBig := []string{"REQ(0)", "RESP(1,-1,0)", "D(1,16384,0,0)", "D(1,16384,0,0)", "R(1,20000)"}
	var parts []c10cliPart
	if c.Quick() {
		parts = []c10cliPart{
			{"cli/win8/empty", small, nil, c10cliAlphabet([]int64{0, 1}, respQ, dSmallQ, []int64{1, 100}, ext, nil), 4},
			{"cli/win8/buffered", small, seedOpen, c10cliAlphabet([]int64{0}, respQ, dSmallQ, []int64{1, 100}, ext, nil), 3},
			{"cli/default/content-length", large, seedCL, c10cliAlphabet(nil, nil, dLargeQ, []int64{1, 100}, ext, nil), 4},
			{"cli/default/post-open-body", large, seedPost, c10cliAlphabet(nil, nil, dLargeQ, []int64{1, 100}, ext, nil), 3},
			{"cli/default/two-requests", large, seedTwo, c10cliAlphabet(nil, nil, dLargeQ, []int64{100}, ext, nil), 3},
			{"cli/default/big-frames", large, seedBig, c10cliAlphabet(nil, nil, dLargeQ, []int64{100, 20000}, ext, nil), 3},
		}
	} else {
		parts = []c10cliPart{
			{"cli/win8/empty", small, nil, c10cliAlphabet([]int64{0, 1}, respT, dSmallT, []int64{1, 100}, ext, nil), 5},
			{"cli/win8/buffered", small, seedOpen, c10cliAlphabet([]int64{0, 1}, respT, dSmallT, []int64{1, 100}, ext, nil), 4},
			{"cli/default/empty", large, nil, c10cliAlphabet([]int64{0, 1}, respT, dLargeT, []int64{1, 100, 20000}, ext, nil), 4},
			{"cli/default/content-length", large, seedCL, c10cliAlphabet([]int64{0}, respT, dLargeT, []int64{1, 100}, ext, nil), 4},
			{"cli/default/post-open-body", large, seedPost, c10cliAlphabet([]int64{0}, respT, dLargeT, []int64{1, 100}, ext, nil), 4},
			{"cli/default/two-requests", large, seedTwo, c10cliAlphabet(nil, nil, dLargeT, []int64{1, 100}, ext, nil), 4},
			{"cli/default/big-frames", large, seedBig, c10cliAlphabet([]int64{0}, respT, dLargeT, []int64{100, 20000}, ext, nil), 4},
		}
	}
	c10cliRunPartList(c, c10sMode{id: "C10", leak: true}, parts)
}
