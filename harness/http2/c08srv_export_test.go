//go:build !(go1.27 && !http2legacy)

package http2

// White-box accessors for the C08/C10/C11 server-side harnesses (package
// http2_test). Read-only: a snapshot of the flow-control state of a serverConn
// taken on its serve goroutine (the same mechanism the repository's own
// TestFlowControlConsumed accessor uses).

// C08srvStreamSnap is the flow-control state of one stream in sc.streams.
type C08srvStreamSnap struct {
	ID          uint32
	State       int   // streamState
	Flow        int32 // st.flow.n (send window)
	InAvail     int32 // st.inflow.avail
	InUnsent    int32 // st.inflow.unsent
	HasBody     bool
	BodyLen     int   // st.body.Len(): buffered unread (or unread-at-break) bytes
	BodyErr     bool  // body pipe closed/broken
	ResetQueued bool
	BodyBytes   int64
}

// C08srvSnap is the flow-control state of a serverConn.
type C08srvSnap struct {
	OK             bool // false: the serve loop has exited
	ConnFlow       int32
	ConnInAvail    int32
	ConnInUnsent   int32
	ConfConnWindow int32 // configured MaxUploadBufferPerConnection (after defaults)
	ConfStrWindow  int32 // configured MaxUploadBufferPerStream (after defaults)
	InGoAway       bool
	GoAwayCode     uint32
	MaxFrameSize   int32
	InitialSendWin int32
	Streams        []C08srvStreamSnap // ascending stream id
	CurHandlers    uint32
	UnackedSet     int
}

// C08srvSnapshot runs on the serve goroutine; it returns OK=false if the
// serve loop is gone.
func (sc *serverConn) C08srvSnapshot() C08srvSnap {
	conf := configFromServer(sc.hs, sc.srv)
	donec := make(chan C08srvSnap, 1)
	f := func(sc *serverConn) {
		s := C08srvSnap{
			OK:             true,
			ConnFlow:       sc.flow.n,
			ConnInAvail:    sc.inflow.avail,
			ConnInUnsent:   sc.inflow.unsent,
			ConfConnWindow: conf.MaxUploadBufferPerConnection,
			ConfStrWindow:  conf.MaxUploadBufferPerStream,
			InGoAway:       sc.inGoAway,
			GoAwayCode:     uint32(sc.goAwayCode),
			MaxFrameSize:   sc.maxFrameSize,
			InitialSendWin: sc.initialStreamSendWindowSize,
			CurHandlers:    sc.curHandlers,
			UnackedSet:     sc.unackedSettings,
		}
		for id := uint32(1); id <= sc.maxClientStreamID; id += 2 {
			st, ok := sc.streams[id]
			if !ok {
				continue
			}
			ss := C08srvStreamSnap{
				ID:          id,
				State:       int(st.state),
				Flow:        st.flow.n,
				InAvail:     st.inflow.avail,
				InUnsent:    st.inflow.unsent,
				ResetQueued: st.resetQueued,
				BodyBytes:   st.bodyBytes,
			}
			if st.body != nil {
				ss.HasBody = true
				ss.BodyLen = st.body.Len()
				ss.BodyErr = st.body.Err() != nil
			}
			s.Streams = append(s.Streams, ss)
		}
		donec <- s
	}
	select {
	case sc.serveMsgCh <- f:
	case <-sc.doneServing:
		return C08srvSnap{}
	}
	select {
	case s := <-donec:
		return s
	case <-sc.doneServing:
		// The loop may have exited before running f.
		select {
		case s := <-donec:
			return s
		default:
		}
		return C08srvSnap{}
	}
}
