//go:build !(go1.27 && !http2legacy)

package http2

// White-box additions for C16 (read-only; quiescent points only).

// C16WriteBufSize is the size of the server's per-connection write buffer:
// frame writers that promise to stay within what is left of it are run on the
// serve goroutine, all others on a separate goroutine.
const C16WriteBufSize = bufWriterPoolBufferSize

// C16WriteBufAvailable reports how many bytes are free in the connection's
// write buffer (the full size when nothing is buffered). Call it only when
// every goroutine of the bubble is durably blocked.
func (sc *serverConn) C16WriteBufAvailable() int { return sc.bw.Available() }

// C16QueuedResponses walks the connection's write scheduler (the four
// schedulers of the package) and counts the queued write requests by the frame
// they will write, independently of the server's own queuedControlFrames
// bookkeeping: RST_STREAM frames for stream errors, PING acks and SETTINGS
// acks — the frames a server owes a peer per received frame without any
// handler being involved. ok is false for a scheduler the walker does not
// know. Call it only when every goroutine of the bubble is durably blocked.
func (sc *serverConn) C16QueuedResponses() (rst, pingAck, settingsAck int, ok bool) {
	count := func(q *writeQueue) {
		if q == nil {
			return
		}
		one := func(wr *FrameWriteRequest) {
			switch wr.write.(type) {
			case StreamError:
				rst++
			case writePingAck:
				pingAck++
			case writeSettingsAck:
				settingsAck++
			}
		}
		for i := q.currPos; i < len(q.currQueue); i++ {
			one(&q.currQueue[i])
		}
		for i := range q.nextQueue {
			one(&q.nextQueue[i])
		}
	}
	switch ws := sc.writeSched.(type) {
	case *priorityWriteSchedulerRFC9218:
		count(&ws.control)
		for _, m := range ws.streams {
			count(m.location)
		}
	case *roundRobinWriteScheduler:
		count(&ws.control)
		for _, q := range ws.streams {
			count(q)
		}
	case *randomWriteScheduler:
		count(&ws.zero)
		for _, q := range ws.sq {
			count(q)
		}
	case *priorityWriteSchedulerRFC7540:
		count(&ws.root.q)
		for _, n := range ws.nodes {
			count(&n.q)
		}
	default:
		return 0, 0, 0, false
	}
	return rst, pingAck, settingsAck, true
}
