//go:build !(go1.27 && !http2legacy)

package http2

// White-box additions for C16 (read-only; quiescent points only).

// C16WriteBufSize is the size of the server's per-connection write buffer:
// frame writers that promise to stay within what is left of it are run on the
// serve goroutine, all others on a separate goroutine.
const C16WriteBufSize = bufWriterPoolBufferSize

// C16WriteBufAvailable reports how many bytes are free in the connection's
// write buffer (the full size when nothing is buffered). Call it only when
// every goroutine of the bubble is durably blocked.
func (sc *serverConn) C16WriteBufAvailable() int { return sc.bw.Available() }
