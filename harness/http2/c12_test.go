// C12 — every HTTP/2 write scheduler delivers every queued frame exactly once,
// in order; Pop never returns an empty request and reports a frame whenever
// one is sendable.
//
// Stateless, depth-bounded enumeration of every contract-respecting history
// over a small operation alphabet, for every scheduler configuration. Whole
// histories are the cases (vx.Enumerate), so nothing depends on replaying a
// prefix deterministically: the random scheduler iterates a Go map, and the
// reference model therefore *follows* the scheduler's choice on each Pop and
// checks that the choice is allowed. Every history ends with an implicit
// drain (all windows opened, Pop until empty) under the same oracle.

//go:build !(go1.27 && !http2legacy)

package http2

import (
	"testing"

	"golang.org/x/net/internal/zzverif/vx"
)

type c12Case struct {
	Sched string  `json:"sched"`
	Env   string  `json:"env"`
	Ops   []c12Op `json:"ops"`
}

type c12Part struct {
	name    string
	scheds  []string
	env     c12Env
	canOpen []uint32
	seeds   [][]c12Op
	ops     []c12Op
	depth   int
}

var c12AllScheds = []string{"rfc7540", "rfc7540-retain0", "rfc7540-retain1", "rfc7540-throttle", "rfc9218", "roundrobin", "random"}

func c12Envs() map[string]c12Env {
	m := map[string]c12Env{}
	for _, e := range []c12Env{
		{Name: "stream-limited", MaxFrame: 4, ConnWin: 1000, StreamWin: 0},
		{Name: "conn-limited", MaxFrame: 4, ConnWin: 0, StreamWin: 1000},
		{Name: "open", MaxFrame: 4, ConnWin: 1000, StreamWin: 1000},
		{Name: "open-bigframes", MaxFrame: 2048, ConnWin: 100000, StreamWin: 100000},
	} {
		m[e.Name] = e
	}
	return m
}

// c12FrameOps is the frame/flow-control alphabet over streams ids (plus RST on
// the never-opened id 7).
func c12FrameOps(env c12Env, ids []uint32) []c12Op {
	var ops []c12Op
	for _, s := range ids {
		ops = append(ops, c12Op{K: c12Open, S: s, P: c12Prio{W: 15, U: 3}})
	}
	ops = append(ops, c12Op{K: c12Pop})
	for _, s := range ids {
		ops = append(ops,
			c12Op{K: c12Headers, S: s},
			c12Op{K: c12Data, S: s, N: 3},
			c12Op{K: c12Data, S: s, N: 10, End: true},
			c12Op{K: c12Data, S: s, N: 0, End: true})
	}
	ops = append(ops, c12Op{K: c12Ctl}, c12Op{K: c12RST, S: ids[0]}, c12Op{K: c12RST, S: 7})
	for _, s := range ids {
		ops = append(ops, c12Op{K: c12Close, S: s})
	}
	switch env.Name {
	case "stream-limited":
		for _, s := range ids {
			ops = append(ops, c12Op{K: c12Win, S: s, N: 2}, c12Op{K: c12Win, S: s, N: 100})
		}
		ops = append(ops, c12Op{K: c12Win, S: ids[0], N: -3})
	case "conn-limited":
		ops = append(ops, c12Op{K: c12Win, S: 0, N: 2}, c12Op{K: c12Win, S: 0, N: 100})
	}
	return ops
}

// c12PrioOps is the priority/structure alphabet: three streams, rich
// AdjustStream (both schemes at once: each scheduler reads its own half),
// few frame kinds, open windows.
func c12PrioOps(ids []uint32, bigData int32) []c12Op {
	var ops []c12Op
	for _, s := range ids {
		ops = append(ops, c12Op{K: c12Open, S: s, P: c12Prio{W: 15, U: 3}})
	}
	ops = append(ops, c12Op{K: c12Pop})
	for _, s := range ids {
		ops = append(ops, c12Op{K: c12Headers, S: s}, c12Op{K: c12Data, S: s, N: bigData, End: true})
	}
	for _, s := range ids {
		ops = append(ops, c12Op{K: c12Close, S: s})
	}
	all := append(append([]uint32(nil), ids...), 7)
	for _, s := range all {
		// dependency on the root, exclusive (adopts every sibling), urgent+incremental
		ops = append(ops, c12Op{K: c12Adjust, S: s, P: c12Prio{Dep: 0, Excl: true, W: 0, U: 0, I: true}})
		for _, d := range all {
			if d == s {
				continue
			}
			ops = append(ops,
				c12Op{K: c12Adjust, S: s, P: c12Prio{Dep: d, W: 255, U: 3, I: true}},
				c12Op{K: c12Adjust, S: s, P: c12Prio{Dep: d, Excl: true, W: 15, U: 7}})
		}
	}
	return ops
}

// c12Default9218 is the priority every harness OpenStream carries (RFC 9218
// default: urgency 3, non-incremental).
var c12Default9218 = c12Prio{W: 15, U: 3}

// c12Prios9218 has one value on each side of "same bucket as the OpenStream
// default?": the default bucket itself, same urgency but incremental, more
// urgent, less urgent.
var c12Prios9218 = []c12Prio{{W: 15, U: 3}, {W: 15, U: 3, I: true}, {W: 15, U: 0, I: true}, {W: 15, U: 7}}

// c12BufferedOps is the alphabet of the buffered-PRIORITY_UPDATE part of the
// RFC 9218 scheduler: AdjustStream with every priority of c12Prios9218 on
// every id, open or not yet open (an AdjustStream on a not yet open id is
// buffered and applied by the next OpenStream of that id; one on the
// never-opened id 7 replaces whatever is buffered), OpenStream (always with
// the default priority, so a buffered update may or may not name another
// bucket), HEADERS, a DATA frame of several pieces, CloseStream, Pop.
func c12BufferedOps(ids []uint32) []c12Op {
	var ops []c12Op
	for _, s := range ids {
		ops = append(ops, c12Op{K: c12Open, S: s, P: c12Default9218})
	}
	ops = append(ops, c12Op{K: c12Pop})
	for _, s := range ids {
		ops = append(ops, c12Op{K: c12Headers, S: s}, c12Op{K: c12Data, S: s, N: 10, End: true})
	}
	for _, s := range ids {
		ops = append(ops, c12Op{K: c12Close, S: s})
	}
	for _, s := range ids {
		for _, p := range c12Prios9218 {
			ops = append(ops, c12Op{K: c12Adjust, S: s, P: p})
		}
	}
	ops = append(ops, c12Op{K: c12Adjust, S: 7, P: c12Prios9218[2]})
	return ops
}

// c12BufferedSeeds returns the empty history plus, for every id b of ids and
// every non-default priority p, the shortest history in which b was opened
// through the buffered-update path: Open(ids below b) Adjust(b,p) Open(b).
func c12BufferedSeeds(ids []uint32) [][]c12Op {
	seeds := [][]c12Op{nil}
	for bi, b := range ids {
		for _, p := range c12Prios9218[1:] {
			var seed []c12Op
			for _, s := range ids[:bi] {
				seed = append(seed, c12Op{K: c12Open, S: s, P: c12Default9218})
			}
			seed = append(seed, c12Op{K: c12Adjust, S: b, P: p}, c12Op{K: c12Open, S: b, P: c12Default9218})
			seeds = append(seeds, seed)
		}
	}
	return seeds
}

func c12Parts(c *vx.Ctx) []c12Part {
	envs := c12Envs()
	two, three := []uint32{1, 3}, []uint32{1, 3, 5}
	open13 := []c12Op{{K: c12Open, S: 1, P: c12Prio{W: 15, U: 3}}, {K: c12Open, S: 3, P: c12Prio{W: 15, U: 3}}}
	sched7540 := []string{"rfc7540", "rfc7540-retain0", "rfc7540-retain1", "rfc7540-throttle"}
	return []c12Part{
		{name: "frames/stream-limited", scheds: c12AllScheds, env: envs["stream-limited"], canOpen: two,
			seeds: [][]c12Op{nil}, ops: c12FrameOps(envs["stream-limited"], two), depth: vx.Pick(c, 5, 6)},
		{name: "frames/conn-limited", scheds: c12AllScheds, env: envs["conn-limited"], canOpen: two,
			seeds: [][]c12Op{nil}, ops: c12FrameOps(envs["conn-limited"], two), depth: vx.Pick(c, 5, 6)},
		// the same alphabet from "streams 1 and 3 are open": reaches what depth+2 reaches from scratch
		{name: "frames/two-open", scheds: c12AllScheds, env: envs["stream-limited"], canOpen: two,
			seeds: [][]c12Op{open13}, ops: c12FrameOps(envs["stream-limited"], two), depth: vx.Pick(c, 4, 5)},
		// priorities and structure: two streams + the never-opened id 7, DATA larger than the throttle limit
		{name: "prio/two-streams", scheds: append(append([]string(nil), sched7540...), "rfc9218"), env: envs["open-bigframes"], canOpen: two,
			seeds: [][]c12Op{nil}, ops: c12PrioOps(two, 2500), depth: vx.Pick(c, 4, 5)},
		// three streams + id 7
		{name: "prio/three-streams", scheds: []string{"rfc7540", "rfc7540-retain0", "rfc7540-retain1", "rfc9218", "roundrobin", "random"}, env: envs["open"], canOpen: three,
			seeds: [][]c12Op{nil}, ops: c12PrioOps(three, 10), depth: vx.Pick(c, 3, 4)},
		// RFC 9218: streams opened through a buffered PRIORITY_UPDATE (AdjustStream before OpenStream)
		// sharing the scheduler with other streams, then pushed to / closed / adjusted again / popped
		{name: "prio9218/buffered-update", scheds: []string{"rfc9218"}, env: envs["open"], canOpen: three,
			seeds: c12BufferedSeeds(three), ops: c12BufferedOps(three), depth: vx.Pick(c, 4, 5)},
	}
}

// c12Probe pushes one HEADERS frame on every stream that is open under the
// contract; the drain that follows must deliver each exactly once (no open
// stream may have become unreachable for Pop, whatever the history did).
func c12Probe(w *vx.W, world *c12World) bool {
	for id := range world.streams {
		if world.streams[id].state != 1 {
			continue
		}
		if _, cont := world.apply(w, c12Op{K: c12Headers, S: uint32(id)}); !cont {
			return false
		}
	}
	return true
}

func c12RunCase(w *vx.W, envs map[string]c12Env, x c12Case) {
	world := c12NewWorld("C12", x.Sched, envs[x.Env])
	defer world.release()
	for _, op := range x.Ops {
		if _, cont := world.apply(w, op); !cont {
			return
		}
	}
	world.drain(w)
	if !world.failed && c12Probe(w, world) {
		world.drain(w)
	}
	// model-checking counters: every history is distinct by construction
	// (one explored history = one state of the stateless search), every
	// operation application was compared with the model.
	ctx := w.Ctx()
	ctx.AddStates(1)
	ctx.AddTransitions(int64(len(x.Ops)))
	ctx.AddTraces(1)
	if world.failed {
		return
	}
	if world.pops > 0 {
		w.Nontrivial()
	}
}

func TestVerif_C12(t *testing.T) {
	vx.Run(t, "C12", func(c *vx.Ctx) {
		c.Rule("cases = every WriteScheduler-contract-respecting history (ids opened in ascending order and never reused; HEADERS/DATA only on open streams; RST_STREAM on any id incl. closed and never-opened; AdjustStream on any id, never self-dependent) of length <= depth over the part's alphabet, for every scheduler configuration of the part (random, round-robin, RFC 9218, RFC 7540 default / retention 0 / retention 1 / throttling), shortest first, each ending in an implicit drain (windows opened, Pop until none), then one HEADERS frame pushed on every stream that is still open and a second drain (every open stream must still be reachable for Pop). Part prio9218/buffered-update (RFC 9218 scheduler, ids 1,3,5): the alphabet is OpenStream with the default priority, AdjustStream on every id whether open or not yet open with (urgency,incremental) in {(3,0) = the default bucket, (3,1), (0,1), (7,0)} (an AdjustStream on a not yet open id is a buffered PRIORITY_UPDATE that the next OpenStream of that id applies; one on the never-opened id 7 replaces the buffer), HEADERS, a multi-piece DATA, CloseStream, Pop; histories start from the empty scheduler and from every seed Open(ids below b) Adjust(b,p) Open(b) with b in {1,3,5} and p a non-default bucket. Before every Pop of the RFC 9218 scheduler the harness reports instead of calling Pop when Pop is certain to loop forever (no control frame, every ring visited earlier closed and empty, and the walk from a ring head passes only empty queues and never returns to the head). Streams are real *stream values with outflows linked to a connection outflow. After every Pop a FIFO model that follows the scheduler's choice checks: non-empty request, control frames first (connection control frames in push order), head of the chosen stream's queue, DATA pieces = next bytes, within stream/conn window and maxFrameSize, END_STREAM and done channel only on the final piece, windows debited exactly; Pop()==false only if nothing is sendable. Non-trivial = history in which at least one frame was popped and checked")
		c.Assume("histories outside the WriteScheduler contract are not generated: re-opening an id, CloseStream/HEADERS/DATA on a non-open id, opening ids out of ascending order, AdjustStream with StreamDep == StreamID (filtered by the server), pushed streams (PusherID)")
		c.Assume("RST_STREAM frames are exempt from ordering (WriteScheduler.Pop doc); connection control frames must keep push order among themselves")
		envs := c12Envs()
		defer c12Ballast()()
		for _, p := range c12Parts(c) {
			p := p
			c.Note(p.name+".depth", p.depth)
			c.Note(p.name+".alphabet", len(p.ops))
			vx.Enumerate(c, p.name, vx.Opts{}, func(yield func(c12Case) bool) {
				// shortest first across schedulers: one pass per length
				for l := 1; l <= p.depth; l++ {
					for _, seed := range p.seeds {
						for _, sched := range p.scheds {
							ok := c12GenSeqs(p.canOpen, seed, p.ops, l, func(ops []c12Op) bool {
								return yield(c12Case{Sched: sched, Env: p.env.Name, Ops: ops})
							})
							if !ok {
								return
							}
						}
					}
				}
			}, func(w *vx.W, x c12Case) { c12RunCase(w, envs, x) })
		}
		// RFC 7540 priority tree: explicit-state search with deduplication on
		// the scheduler's private state (see c12_tree_test.go).
		c.Rule("tree/<cfg>: breadth-first search over open/close/AdjustStream (ids 1,3,5 and the never-opened 7; every dependency incl. the root, exclusive or not; weights 15/255/15/0), HEADERS (at most one queued per stream) and Pop on the RFC 7540 scheduler (default, retention 0, retention 1), states deduplicated on the complete private scheduler state (tree, sibling order, weights, closed/idle lists, queues) plus the model; every state is finished by pushing HEADERS on every open stream and draining under the same oracle")
		treeDepth := vx.Pick(c, 4, 8)
		c.Note("tree.depth", treeDepth)
		for _, sched := range []string{"rfc7540", "rfc7540-retain0", "rfc7540-retain1"} {
			d := treeDepth
			if sched == "rfc7540-retain0" {
				d += 3 // no retained nodes: a much smaller state space
			}
			c12TreeSearch(c, sched, d, 4_000_000)
		}
	})
}
