//go:build !(go1.27 && !http2legacy)

package http2_test

// C18 — the HTTP/2 client handles GOAWAY without losing or duplicating requests.
//
// EV exploration of a real Transport through the c17cli harness: requests with
// and without (replayable / one-shot) bodies, GOAWAY frames with every
// last-stream-id class and graceful / error codes at every position, responses,
// resets and connection closes. The monitor classifies every in-flight request
// at each GOAWAY and follows it to the end of the case.

import (
	"fmt"
	"os"
	"runtime"
	"strconv"
	"strings"
	"testing"
	"testing/synctest"
	"time"

	. "golang.org/x/net/http2"
	"golang.org/x/net/internal/zzverif/vx"
)

type c18Case struct {
	Cfg string   `json:"cfg"` // "", "lim1" (server advertises MAX_CONCURRENT_STREAMS=1) "strict-lim1" / "strict-lim2" (… with Transport.StrictMaxConcurrentStreams and limit 1 / 2)
	Ev  []string `json:"ev"`
}

type c18ConnMon struct {
	greeted    bool
	goAway     bool
	goAwayStep int
	lastL      uint32
	code       ErrCode
}

// c18ReqMon is what the monitor remembers about one request.
type c18ReqMon struct {
	safeOn     map[int]bool // connections on which the request's stream was <= L of a GOAWAY
	abortedOn  map[int]bool // connections on which its stream was > L of a GOAWAY (must be retried / reported)
	firstErrOn map[int]bool // … and was stream 1 under a GOAWAY with an error code (documented: not retried)
	resetBySrv bool
	connClosed bool // a connection carrying an open stream of the request was closed by the harness
}

type c18Mon struct {
	lim1 bool
	// write-lock window (see c18Exec): win is the connection on which the
	// server is not reading and a DATA write of an open stream is stuck holding
	// the connection's write lock; waiter: a request has been given its stream
	// ID on win and is queued behind that write (its HEADERS are not written).
	win       *c17Conn
	waiter    bool
	waiterReq int
	w    *vx.W
	h    *c17cli
	cm   map[int]*c18ConnMon
	rm   map[int]*c18ReqMon
	feat map[string]bool
}

func (m *c18Mon) fail(sig, format string, a ...any) { m.w.Failf("C18/"+sig, format, a...) }

func (m *c18Mon) conn(c *c17Conn) *c18ConnMon {
	cm := m.cm[c.idx]
	if cm == nil {
		cm = &c18ConnMon{}
		m.cm[c.idx] = cm
	}
	return cm
}

func (m *c18Mon) req(i int) *c18ReqMon {
	r := m.rm[i]
	if r == nil {
		r = &c18ReqMon{safeOn: map[int]bool{}, abortedOn: map[int]bool{}, firstErrOn: map[int]bool{}}
		m.rm[i] = r
	}
	return r
}

// observe checks and tracks the client's frames of one step.
func (m *c18Mon) observe(frames map[int][]c15Frame) {
	for _, c := range m.h.connList() {
		cm := m.conn(c)
		fs := frames[c.idx]
		for i := range fs {
			f := &fs[i]
			if f.Type == FrameHeaders && c.byID[f.Stream] == nil {
				reqIdx := -1
				for _, kv := range f.Fields {
					if kv[0] == "x-req" {
						reqIdx, _ = strconv.Atoi(kv[1])
					}
				}
				if cm.goAway && f.Step > cm.goAwayStep {
					m.fail("new-stream-after-goaway", "client opened stream %d (request %d) on conn %d after the GOAWAY delivered at step %d; history:%s", f.Stream, reqIdx, c.idx, cm.goAwayStep, m.h.history())
				}
				for _, st := range c.streams {
					if st.req == reqIdx && reqIdx >= 0 {
						m.fail("request-sent-twice-on-one-connection", "request %d was sent on stream %d and again on stream %d of conn %d; history:%s", reqIdx, st.id, f.Stream, c.idx, m.h.history())
					}
				}
				if reqIdx >= 0 {
					rq := m.req(reqIdx)
					for ci, safe := range rq.safeOn {
						if safe && ci != c.idx && !rq.resetBySrv {
							m.fail("request-at-or-below-last-stream-id-resent", "request %d, whose stream on conn %d was covered by the GOAWAY's last-stream-id, was sent again on conn %d; history:%s", reqIdx, ci, c.idx, m.h.history())
						}
					}
					if len(rq.abortedOn) > 0 {
						m.feat["retried-on-new-connection"] = true
						if c18OneShot(m.h.reqs[reqIdx].body) {
							sent := 0
							for _, oc := range m.h.connList() {
								for _, st := range oc.streams {
									if st.req == reqIdx {
										sent += st.dataLen
									}
								}
							}
							if sent > 0 {
								m.fail("one-shot-request-resent-after-body-written", "request %d has a body that cannot be replayed, %d body bytes had been sent before the GOAWAY, and the request was sent again on conn %d; history:%s", reqIdx, sent, c.idx, m.h.history())
							}
						}
					}
				}
			}
			c.track(f)
		}
	}
}

func c18Retryable(err error) bool {
	if err == nil {
		return false
	}
	if C18CanRetry(err) {
		return true
	}
	// the retry loop wraps the cause when the body cannot be replayed
	return strings.Contains(err.Error(), C18ErrGotGoAway.Error()) || strings.Contains(err.Error(), C18ErrUnusable.Error())
}

// goAway classifies the in-flight requests of conn c at a GOAWAY(last, code).
func (m *c18Mon) goAway(c *c17Conn, last uint32, code ErrCode) {
	cm := m.conn(c)
	if !cm.goAway {
		cm.goAway = true
		cm.goAwayStep = m.h.step
		cm.code = code
	} else if cm.code == ErrCodeNo {
		cm.code = code
	}
	cm.lastL = last
	for _, st := range c.streams {
		if st.req < 0 || m.h.reqs[st.req].finished() {
			continue
		}
		rq := m.req(st.req)
		if rq.abortedOn[c.idx] {
			continue // already above an earlier GOAWAY's last-stream-id
		}
		if st.id <= last {
			rq.safeOn[c.idx] = true
			m.feat["in-flight-at-or-below-L"] = true
		} else {
			delete(rq.safeOn, c.idx)
			rq.abortedOn[c.idx] = true
			m.feat["in-flight-above-L"] = true
			if st.id == 1 && cm.code != ErrCodeNo {
				rq.firstErrOn[c.idx] = true
				m.feat["first-stream-error-goaway"] = true
			}
		}
	}
}

// quiescent evaluates the per-request clauses.
func (m *c18Mon) quiescent(final bool) {
	h := m.h
	for _, b := range h.bad {
		m.fail("wire/malformed-client-output", "%s; history:%s", b, h.history())
	}
	conns := h.connList()
	for _, r := range h.reqs {
		rq := m.req(r.idx)
		// where is the request on the wire?
		onConn := map[int]*c17Stream{}
		for _, c := range conns {
			for _, st := range c.streams {
				if st.req == r.idx {
					onConn[c.idx] = st
				}
			}
		}
		if r.finished() && r.err != nil && !r.cancelled && !rq.resetBySrv && !rq.connClosed {
			// failed although nothing but GOAWAYs happened to it
			for ci, safe := range rq.safeOn {
				if safe && !conns[ci].srvClosed {
					m.fail("request-at-or-below-last-stream-id-aborted", "request %d (stream %d of conn %d, covered by the GOAWAY's last-stream-id) failed with %q while the connection was still open; history:%s", r.idx, onConn[ci].id, ci, r.err, h.history())
				}
			}
			if len(rq.abortedOn) > 0 && !c18Retryable(r.err) {
				first := false
				for ci := range rq.abortedOn {
					if rq.firstErrOn[ci] {
						first = true
					}
				}
				if !first {
					m.fail("request-above-last-stream-id-failed-not-retryable/"+c18BodyClass(r.body), "request %d (%s body) was above the GOAWAY's last-stream-id and failed with the non-retryable error %q; history:%s", r.idx, c18BodyClass(r.body), r.err, h.history())
				}
			}
			if len(rq.abortedOn) > 0 && !c18OneShot(r.body) {
				first := false
				for ci := range rq.abortedOn {
					if rq.firstErrOn[ci] {
						first = true
					}
				}
				// a replayable request must have been retried, not failed (up to the retry limit of the Transport)
				if !first && len(rq.abortedOn) <= 2 {
					m.fail("replayable-request-above-last-stream-id-not-retried/"+c18BodyClass(r.body), "request %d (%s body) was above the GOAWAY's last-stream-id on %d connection(s) and failed with %q instead of being retried; history:%s", r.idx, c18BodyClass(r.body), len(rq.abortedOn), r.err, h.history())
				}
			}
		}
		if !final && !m.lim1 && !r.finished() && len(rq.abortedOn) > 0 && len(rq.abortedOn) <= 2 {
			// (not with a stream limit of 1: there the retried request may legitimately wait for a slot)
			// above a GOAWAY's last-stream-id and still running: it must have moved to another connection by now
			// (first retry is immediate, the second one waits 1-1.1 s; 1.5 s have passed)
			moved := false
			for ci := range onConn {
				if !rq.abortedOn[ci] {
					moved = true
				}
			}
			first := false
			for ci := range rq.abortedOn {
				if rq.firstErrOn[ci] {
					first = true
				}
			}
			if !moved && !first {
				m.fail("request-above-last-stream-id-left-on-connection/"+c18BodyClass(r.body), "request %d (%s body) was above the GOAWAY's last-stream-id; 1.5 s later it has neither failed nor been sent on another connection; history:%s", r.idx, c18BodyClass(r.body), h.history())
			}
		}
		if final && !r.finished() {
			m.fail("request-left-pending", "request %d never completed although every connection was closed; history:%s", r.idx, h.history())
		}
	}
}

func c18BodyClass(b string) string {
	switch b {
	case "replay":
		return "replayable"
	case "once", "late":
		return "one-shot"
	}
	return "no"
}

func c18OneShot(b string) bool { return b == "once" || b == "late" }

// c18Spin yields to the other goroutines of the bubble until cond holds. It is
// used only while a goroutine of the Transport waits for the connection's write
// lock behind a write that the network does not accept: a goroutine blocked on
// a sync.Mutex is not durably blocked, so synctest.Wait (and fake time) cannot
// be used until the server reads again. cond is a state predicate that, once
// true, stays true until the harness' next action.
func c18Spin(cond func() bool) bool {
	for i := 0; i < 200000; i++ {
		if cond() {
			return true
		}
		runtime.Gosched()
	}
	return false
}

// tick advances the harness step without a quiescence point.
func (m *c18Mon) tick() {
	m.h.mu.Lock()
	m.h.step++
	m.h.mu.Unlock()
}

func (m *c18Mon) anyNotReading() bool {
	for _, c := range m.h.connList() {
		if c.notReading && c.usable() {
			return true
		}
	}
	return false
}

// settle: quiescence, then enough fake time for the Transport's retry back-off
// (1 s + 10 % jitter for the second attempt), then quiescence again. Newly
// dialled connections are greeted with SETTINGS right away.
func (m *c18Mon) settle(lim uint32) {
	for round := 0; round < 4; round++ {
		m.observe(m.h.settle())
		greeted := false
		for _, c := range m.h.connList() {
			cm := m.conn(c)
			if !cm.greeted && c.usable() {
				cm.greeted = true
				greeted = true
				if lim > 0 {
					c.settings(Setting{ID: SettingMaxConcurrentStreams, Val: lim})
				} else {
					c.settings()
				}
			}
		}
		if !greeted && round > 0 {
			break
		}
		if round == 0 {
			time.Sleep(1500 * time.Millisecond)
		}
	}
}

func c18Exec(t testing.TB, w *vx.W, cs c18Case) {
	h := c17cliNew(t, strings.HasPrefix(cs.Cfg, "strict"))
	defer h.finish()
	m := &c18Mon{w: w, h: h, cm: map[int]*c18ConnMon{}, rm: map[int]*c18ReqMon{}, feat: map[string]bool{}}
	applied, points, complete := 0, 0, false
	defer func() {
		w.Ctx().AddTransitions(int64(applied))
		w.Ctx().AddStates(int64(points))
		if complete {
			w.Ctx().AddTraces(1)
		}
	}()
	lim := uint32(0)
	if strings.HasSuffix(cs.Cfg, "lim1") {
		lim = 1
	} else if strings.HasSuffix(cs.Cfg, "lim2") {
		lim = 2
	}
	m.lim1 = lim > 0
	for _, ev := range cs.Ev {
		conns := h.connList()
		connOf := func(b byte) *c17Conn {
			i := int(b - 'a')
			if i < 0 || i >= len(conns) {
				return nil
			}
			return conns[i]
		}
		spun := false // the event ended without a quiescence point (write-lock window)
		switch {
		case ev == "Q" || ev == "Qr" || ev == "Qo" || ev == "Ql":
			kind := map[string]string{"Q": "", "Qr": "replay", "Qo": "once", "Ql": "late"}[ev]
			if m.win == nil {
				h.request(kind)
				break
			}
			// A DATA write is stuck on m.win holding the write lock. A request that the pool hands to that
			// connection gets its stream ID and then waits for the write lock (sync.Mutex): no quiescence point.
			if m.waiter {
				w.Outcome("pruned:second-request-behind-a-request-waiting-for-the-write-lock")
				return
			}
			before := m.win.cc.C17Peek().Streams
			r := h.request(kind)
			assigned := func() (int, bool) {
				for _, a := range h.assignList() {
					if a.req == r.idx {
						return a.conn, true
					}
				}
				return -1, false
			}
			if !c18Spin(func() bool { _, ok := assigned(); return ok || r.finished() }) {
				w.Outcome("pruned:window/request-not-handed-to-a-connection")
				return
			}
			if ci, ok := assigned(); ok && ci == m.win.idx {
				if !c18Spin(func() bool {
					_, hdr := m.win.cc.C17WriteBusy()
					return hdr && m.win.cc.C17Peek().Streams == before+1
				}) {
					w.Outcome("pruned:window/request-did-not-get-a-stream-id")
					return
				}
				m.waiter, m.waiterReq = true, r.idx
				m.feat["request-with-stream-id-waits-for-write-lock"] = true
				spun = true
			}
		case ev[0] == 'B' || ev[0] == 'U':
			c := connOf(ev[1])
			if c == nil || !c.usable() || !m.conn(c).greeted || c.notReading != (ev[0] == 'U') {
				w.Outcome("pruned:no-such-conn")
				return
			}
			if ev[0] == 'B' {
				c.stopReading()
				m.feat["server-not-reading"] = true
			} else {
				c.resumeReading()
				if c == m.win {
					m.win, m.waiter = nil, false
				}
			}
		case ev[0] == 'D':
			j := int(ev[1] - '0')
			if j < 1 || j > len(h.reqs) || h.reqs[j-1].late == nil || m.waiter || !h.reqs[j-1].late.release() {
				w.Outcome("pruned:no-late-body-to-release")
				return
			}
		case ev[0] == 'G':
			c := connOf(ev[1])
			if c == nil || !c.usable() || !m.conn(c).greeted {
				w.Outcome("pruned:no-such-conn")
				return
			}
			if m.waiter && (c != m.win || m.conn(c).goAway) {
				w.Outcome("pruned:window/event-without-observable-completion")
				return
			}
			if c.notReading && ev[2] != '0' && (ev[2] == 'M' || c.byID[uint32(ev[2]-'0')] == nil) {
				w.Outcome("pruned:server-not-reading-names-a-stream-it-has-not-seen")
				return
			}
			var last uint32
			switch ev[2] {
			case 'M':
				last = 1<<31 - 1
			default:
				last = uint32(ev[2] - '0')
			}
			code := ErrCodeNo
			if ev[3] == 'e' {
				code = ErrCodeEnhanceYourCalm
			}
			if cm := m.conn(c); cm.goAway && last > cm.lastL {
				w.Outcome("pruned:goaway-last-id-increased") // RFC 9113 §6.8: MUST NOT increase
				return
			}
			if c == m.win && !m.waiter {
				// a stream other than the one whose write is stuck is aborted by this GOAWAY: its clean-up (RST_STREAM) waits for the write lock
				for _, st := range c.streams {
					if st.open() && st.id > last && st.req >= 0 && h.reqs[st.req].late == nil {
						m.waiter, m.waiterReq = true, st.req
					}
				}
			}
			m.goAway(c, last, code)
			c.goAway(last, code)
			if m.waiter {
				// c == m.win: the read loop still runs; wait until it has processed the GOAWAY
				if !c18Spin(func() bool { return c.cc.C17Peek().GoAway }) {
					w.Outcome("pruned:window/goaway-not-processed")
					return
				}
				m.feat["goaway-while-request-waits-for-write-lock"] = true
				spun = true
			}
		case ev[0] == 'E' || ev[0] == 'R':
			c := connOf(ev[1])
			j := int(ev[2] - '0')
			if c == nil || !c.usable() || !m.conn(c).greeted || j < 1 || j > len(c.streams) {
				w.Outcome("pruned:no-such-stream")
				return
			}
			if m.waiter || c.notReading {
				w.Outcome("pruned:server-answers-while-not-reading")
				return
			}
			st := c.streams[j-1]
			if st.srvEnded || st.srvRst || st.cliRst {
				w.Outcome("pruned:stream-already-closed")
				return
			}
			if cm := m.conn(c); cm.goAway && st.id > cm.lastL {
				w.Outcome("pruned:server-answers-stream-it-disowned")
				return
			}
			if ev[0] == 'E' {
				c.respondEnd(st)
			} else {
				if st.req >= 0 {
					m.req(st.req).resetBySrv = true
				}
				c.reset(st, ErrCodeCancel)
			}
		case ev[0] == 'X':
			c := connOf(ev[1])
			if c == nil || !c.usable() {
				w.Outcome("pruned:no-such-conn")
				return
			}
			if m.waiter && c != m.win {
				w.Outcome("pruned:window/event-without-observable-completion")
				return
			}
			for _, st := range c.streams {
				if st.req >= 0 && !h.reqs[st.req].finished() {
					m.req(st.req).connClosed = true
				}
			}
			if c == m.win {
				if m.waiter {
					m.req(m.waiterReq).connClosed = true // it has no stream on the wire yet
				}
				m.win, m.waiter = nil, false // the stuck write fails: the write lock is released
			}
			c.close()
			m.feat["connection-closed"] = true
		default:
			panic("unknown event " + ev)
		}
		if spun {
			m.tick()
		} else {
			m.settle(lim)
			if m.win == nil {
				for _, c := range h.connList() {
					if stuck, hdr := c.writeStuck(); stuck && !hdr && c.usable() {
						m.win = c
						m.feat["data-write-stuck"] = true
					}
				}
			}
			if !m.anyNotReading() {
				m.quiescent(false)
			}
		}
		applied++
		points++
		if w.Failed() {
			return
		}
	}
	// end of history: the server reads again everywhere (what was stuck reaches the wire and is checked) …
	resumed := false
	for _, c := range h.connList() {
		if c.notReading && c.usable() {
			c.resumeReading()
			resumed = true
		}
	}
	if resumed {
		m.win, m.waiter = nil, false
		m.settle(lim)
		m.quiescent(false)
		if w.Failed() {
			return
		}
	}
	// … and then hangs up everywhere; nothing may stay pending
	for round := 0; round < 10; round++ {
		closedAny := false
		for _, c := range h.connList() {
			if c.usable() {
				for _, st := range c.streams {
					if st.req >= 0 && !h.reqs[st.req].finished() {
						m.req(st.req).connClosed = true
					}
				}
				c.close()
				closedAny = true
			}
		}
		m.observe(h.settle())
		time.Sleep(40 * time.Second)
		m.observe(h.settle())
		// a retry whose back-off expired during the wait may have dialled a new connection
		anyUsable := false
		for _, c := range h.connList() {
			if c.usable() {
				anyUsable = true
			}
		}
		if !closedAny && !anyUsable {
			break
		}
	}
	m.quiescent(true)
	if os.Getenv("VERIF_H2CTL_DEBUG") != "" {
		w.Ctx().T.Logf("C18 %v:%s", cs, h.history())
	}
	points++
	if w.Failed() {
		return
	}
	complete = true
	w.Nontrivial()
	var feats []string
	feats = append(feats, fmt.Sprintf("conns=%d", len(h.connList())))
	for _, k := range []string{"in-flight-at-or-below-L", "in-flight-above-L", "first-stream-error-goaway", "retried-on-new-connection", "connection-closed", "data-write-stuck", "request-with-stream-id-waits-for-write-lock", "goaway-while-request-waits-for-write-lock"} {
		if m.feat[k] {
			feats = append(feats, k)
		}
	}
	nerr := 0
	for _, r := range h.reqs {
		if r.err != nil {
			nerr++
		}
	}
	feats = append(feats, fmt.Sprintf("errors=%d", nerr))
	w.Outcome(strings.Join(feats, "+"))
}

func c18RunCase(c *vx.Ctx, w *vx.W, cs c18Case) {
	synctest.Test(c.T, func(t *testing.T) {
		defer func() {
			if r := recover(); r != nil {
				w.Failf("C18/harness/panic", "panic in the harness: %v", r)
			}
		}()
		c18Exec(t, w, cs)
	})
}

// ---- generation -------------------------------------------------------------------------

type c18GenState struct {
	nQ     int
	nG     int
	nB     int
	late   int // 1-based index of the request with the late body (0 none), lateOut: its data has been released
	lateOut bool
	notReading [4]bool
	conns  int // connections that may exist by now
	closed [4]bool
	used   map[string]bool
}

func (st *c18GenState) clone() *c18GenState {
	c := *st
	c.used = map[string]bool{}
	for k, v := range st.used {
		c.used[k] = v
	}
	return &c
}

type c18GenOpts struct {
	maxQ   int
	reqs   []string
	lasts  string // characters among "0135M"
	maxG   int
	maxConns int
	lim1   bool
	window bool // with the back-pressure events Ql / B / D / U
}

func c18GenNext(st *c18GenState, o c18GenOpts, emit func(ev string, apply func(*c18GenState))) {
	if st.nQ < o.maxQ {
		for _, q := range o.reqs {
			emit(q, func(s *c18GenState) {
				s.nQ++
				if s.conns == 0 {
					s.conns = 1
				} else if o.lim1 && s.conns < o.maxConns {
					s.conns++
				}
			})
		}
	}
	if o.window && st.nQ < o.maxQ && st.late == 0 {
		emit("Ql", func(s *c18GenState) {
			s.nQ++
			s.late = s.nQ
			if s.conns == 0 {
				s.conns = 1
			}
		})
	}
	if o.window && st.late > 0 && !st.lateOut {
		emit("D"+strconv.Itoa(st.late), func(s *c18GenState) { s.lateOut = true })
	}
	for ci := 0; ci < st.conns && ci < o.maxConns; ci++ {
		ci := ci
		if st.closed[ci] {
			continue
		}
		cn := string(rune('a' + ci))
		if o.window && st.notReading[ci] {
			emit("U"+cn, func(s *c18GenState) { s.notReading[ci] = false })
		} else if o.window && st.nB < 1 {
			emit("B"+cn, func(s *c18GenState) { s.nB++; s.notReading[ci] = true })
		}
		if st.nG < o.maxG {
			for _, l := range o.lasts {
				if st.notReading[ci] && (l == 'M' || int(l-'0') > 2*st.nQ-1) {
					continue // a server that is not reading cannot name a stream it has not seen
				}
				for _, code := range "ne" {
					emit("G"+cn+string(l)+string(code), func(s *c18GenState) {
						s.nG++
						if s.conns < o.maxConns {
							s.conns++
						}
					})
				}
			}
		}
		for j := 1; j <= st.nQ && j <= 3; j++ {
			key := cn + strconv.Itoa(j)
			if st.used[key] || st.notReading[ci] {
				continue
			}
			emit("E"+key, func(s *c18GenState) { s.used[key] = true })
			emit("R"+key, func(s *c18GenState) { s.used[key] = true })
		}
		emit("X"+cn, func(s *c18GenState) {
			s.closed[ci] = true
			s.notReading[ci] = false
			if s.conns < o.maxConns {
				s.conns++
			}
		})
	}
}

func c18Gen(cfg string, depth int, o c18GenOpts, prefix []string, yield func(c18Case) bool) bool {
	base := &c18GenState{used: map[string]bool{}}
	for _, pe := range prefix {
		found := false
		c18GenNext(base, o, func(ev string, apply func(*c18GenState)) {
			if ev == pe && !found {
				found = true
				ns := base.clone()
				apply(ns)
				*base = *ns
			}
		})
		if !found {
			panic("c18Gen: illegal prefix event " + pe)
		}
	}
	for n := 1; n <= depth; n++ {
		var rec func(st *c18GenState, evs []string) bool
		rec = func(st *c18GenState, evs []string) bool {
			if len(evs) == n {
				return yield(c18Case{Cfg: cfg, Ev: append(append([]string(nil), prefix...), evs...)})
			}
			ok := true
			c18GenNext(st, o, func(ev string, apply func(*c18GenState)) {
				if !ok {
					return
				}
				ns := st.clone()
				apply(ns)
				ok = rec(ns, append(evs, ev))
			})
			return ok
		}
		if !rec(base, nil) {
			return false
		}
	}
	return true
}

func TestVerif_C18(t *testing.T) {
	vx.Run(t, "C18", func(c *vx.Ctx) {
		depth := vx.Pick(c, 4, 6)
		c.Rule(fmt.Sprintf("every statically legal sequence of 1..%d events (shortest first) over {Q / Qr / Qo: new request without body / with a replayable body / with a one-shot body (<=3), G<conn><L><code>: GOAWAY with last-stream-id L in {0,1,3,5,2^31-1} and code NO_ERROR or ENHANCE_YOUR_CALM (<=2 per case, a second one never raises L), E<conn><j> response with END_STREAM on the j-th stream of the connection, R<conn><j> RST_STREAM, X<conn> the server closes the connection} on up to 3 connections, with and without MAX_CONCURRENT_STREAMS=1 (pooled, and with StrictMaxConcurrentStreams so that requests wait on the connection that receives the GOAWAY), plus seeded prefixes, plus the write-lock window: after the prefixes {Ql, Ba, D1} and (one event fewer) {Q, Ql, Ba, D2} (Ql: request whose body data is not available yet, B<conn>: the server stops reading so that the client's writes block, D<j>: the body data of request j becomes available and its DATA write gets stuck holding the connection's write lock) every sequence of 1..%d events over the alphabet extended with U<conn> (the server reads again) — a request issued in the window is given its stream ID and queues behind the stuck write, a GOAWAY sent in the window is processed before that request's HEADERS can be written; a real Transport in its own synctest bubble, new connections are greeted with SETTINGS at once, 1.5 s of fake time pass after every event (retry back-off), and at the end of every case the server side closes all connections; a case is non-trivial when all its events were applicable at run time", depth, vx.Pick(c, 3, 4)))
		c.Assume("scope note of the design: the first stream of a connection (id 1) above the last-stream-id of a GOAWAY that carries an error code is deliberately not retried by the Transport (setGoAway: \"retrying the request on a new one probably isn't going to work\"); for it only \"an error is delivered, no duplicate\" is required")
		c.Assume("a RoundTrip error counts as reported-retryable when the Transport's own canRetryError accepts it or it wraps the GOAWAY / unusable-connection cause (one-shot bodies cannot be replayed)")
		c.Assume("write-lock window: while a Transport goroutine waits for the connection's write lock (a sync.Mutex, on which testing/synctest cannot wait) the harness has no quiescence point; it then completes an event by yielding until a state predicate holds (request handed to the connection and stream count increased with the new-request lock held; GOAWAY recorded by the ClientConn) and lets no fake time pass; there only one queued request, GOAWAYs on that connection, its close and 'server reads again' are explored, the server names no stream it has not read (L in {0, ids seen}, not 2^31-1), it does not answer streams while it is not reading, and the 1.5 s 'moved to another connection' clause is suspended until the server reads again (every case ends with the server reading again, then closing)")
		c.Assume("the harness never answers or resets a stream above the last-stream-id it announced, and a second GOAWAY never raises the last-stream-id (RFC 9113 §6.8)")
		quickReqs := []string{"Q", "Qo"}
		allReqs := []string{"Q", "Qr", "Qo"}
		o := c18GenOpts{maxQ: 3, reqs: vx.Pick(c, quickReqs, allReqs), lasts: vx.Pick(c, "013M", "0135M"), maxG: 2, maxConns: vx.Pick(c, 2, 3)}
		run := func(part, cfg string, d int, o c18GenOpts, prefix []string) {
			o.lim1 = cfg == "lim1" // in strict mode the second request waits on the same connection
			vx.Enumerate(c, part, vx.Opts{Serial: true, Crumb: true}, func(yield0 func(c18Case) bool) {
				yield := c15Yield(c, yield0)
				if prefix != nil && !yield(c18Case{Cfg: cfg, Ev: prefix}) {
					return
				}
				c18Gen(cfg, d, o, prefix, yield)
			}, func(w *vx.W, cs c18Case) { c18RunCase(c, w, cs) })
		}
		so := c18GenOpts{maxQ: 3, reqs: allReqs, lasts: "0135M", maxG: 2, maxConns: 3}
		sd := vx.Pick(c, 2, 3)
		run("seed-three-in-flight", "", sd, so, []string{"Q", "Qr", "Qo"})
		run("seed-goaway-then-retry-conn", "", sd, so, []string{"Q", "Qr", "Ga1n"})
		run("seed-error-goaway-first-stream", "", sd, so, []string{"Qr", "Qo", "Ga0e"})
		run("seed-lim1-two-conns", "lim1", sd, so, []string{"Q", "Qr"})
		run("seed-strict-lim2-third-waiting", "strict-lim2", sd, so, []string{"Q", "Qr", "Q"})
		// write-lock window: the server stops reading, the released body of a request makes a DATA write get stuck
		// holding the connection's write lock; a request issued now gets its stream ID and queues behind that write
		wo := c18GenOpts{maxQ: 3, reqs: vx.Pick(c, quickReqs, allReqs), lasts: "013M", maxG: 2, maxConns: 3, window: true}
		wd := vx.Pick(c, 3, 4)
		run("window-data-write-stuck", "", wd, wo, []string{"Ql", "Ba", "D1"})
		run("window-data-write-stuck-second-stream", "", wd-1, wo, []string{"Q", "Ql", "Ba", "D2"})
		run("core", "", depth, o, nil)
		run("strict-lim1", "strict-lim1", depth, o, nil)
		run("lim1", "lim1", depth-1, o, nil)
	})
}
