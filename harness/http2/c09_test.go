//go:build !(go1.27 && !http2legacy)

package http2_test

// C09 — the HTTP/2 Transport never sends request DATA beyond the server's
// flow-control windows or SETTINGS_MAX_FRAME_SIZE, and a blocked request body
// resumes when the server extends the window.
//
// EV exploration on the h2cli harness (c09cli_common_test.go); the monitor is
// C08's (c08Monitor) with the roles swapped: the windows the harness, acting
// as the server, granted.

import (
	"fmt"
	"testing"
	"testing/synctest"

	. "golang.org/x/net/http2"
	"golang.org/x/net/internal/zzverif/vx"
)

// ---------------------------------------------------------------------------
// Predictive model (pruning only).

type c09mStream struct {
	opened, alive bool
	eof           bool
	resp          bool // the server ended its side (response HEADERS with END_STREAM)
	win, pend     int64
}

type c09Model struct {
	cw, iw, mfs int64
	dead        bool
	fuzzy       bool
	s           [2]c09mStream
}

func c09NewModel() *c09Model { return &c09Model{cw: c08InitWin, iw: c08InitWin, mfs: c08InitMFS} }

func (m *c09Model) flush() {
	var want [2]int64
	n := 0
	var sum int64
	for i := range m.s {
		s := &m.s[i]
		if !s.alive || s.pend == 0 {
			continue
		}
		if w := min(s.pend, s.win); w > 0 {
			want[i] = w
			sum += w
			n++
		}
	}
	if n == 2 && sum > m.cw && m.cw > 0 {
		m.fuzzy = true
	}
	for i := range m.s {
		s := &m.s[i]
		if w := min(want[i], m.cw); w > 0 {
			s.pend -= w
			s.win -= w
			m.cw -= w
		}
	}
}

// bodyDone: the request body was sent completely (END_STREAM is on the wire).
func (m *c09Model) bodyDone(s *c09mStream) bool { return s.eof && s.pend == 0 && !m.fuzzy }

func (m *c09Model) enabled(ev c08srvEv) bool {
	if m.dead {
		return false
	}
	switch ev.K {
	case "SETIW":
		return ev.arg(0) != m.iw
	case "SETMFS":
		return ev.arg(0) != m.mfs
	case "REQ":
		return !m.s[1].opened
	case "BM", "BE":
		s := &m.s[c08Idx(ev.arg(0))]
		return s.alive && !s.eof
	case "WU":
		if ev.arg(0) == 0 {
			return true
		}
		// A stream-level WINDOW_UPDATE is legal in every state of a stream that
		// was opened (RFC 9113 §5.1: open, half-closed, and for a short period
		// after the stream was closed or reset), so it is explored in all of them.
		return m.s[c08Idx(ev.arg(0))].opened
	case "RST":
		return m.s[c08Idx(ev.arg(0))].alive
	case "RESP":
		s := &m.s[c08Idx(ev.arg(0))]
		return s.alive && !s.resp
	}
	return false
}

func (m *c09Model) apply(ev c08srvEv) {
	switch ev.K {
	case "SETIW":
		d := ev.arg(0) - m.iw
		m.iw = ev.arg(0)
		for i := range m.s {
			if m.s[i].alive && m.s[i].win+d <= c08MaxWin {
				m.s[i].win += d
			}
		}
		m.flush()
	case "SETMFS":
		m.mfs = ev.arg(0)
	case "REQ":
		i := 0
		if m.s[0].opened {
			i = 1
		}
		m.s[i] = c09mStream{opened: true, alive: true, win: m.iw}
	case "BM":
		s := &m.s[c08Idx(ev.arg(0))]
		s.pend += ev.arg(1)
		m.flush()
	case "BE":
		m.s[c08Idx(ev.arg(0))].eof = true
	case "WU":
		if ev.arg(0) == 0 {
			if m.cw+ev.arg(1) > c08MaxWin {
				m.dead = true
				return
			}
			m.cw += ev.arg(1)
		} else {
			s := &m.s[c08Idx(ev.arg(0))]
			if !s.alive {
				return // late frame on a closed stream: no window is affected
			}
			if s.win+ev.arg(1) > c08MaxWin {
				s.alive = false // the client resets the stream
				return
			}
			s.win += ev.arg(1)
		}
		m.flush()
	case "RST":
		m.s[c08Idx(ev.arg(0))].alive = false
	case "RESP":
		// The stream is half-closed (remote) for the client, which may go on
		// sending its body; once the body is complete the stream is closed.
		m.s[c08Idx(ev.arg(0))].resp = true
	}
}

func (m *c09Model) clone() *c09Model { c := *m; return &c }

func c09Alphabet(iws, mfss, bsizes, wus []int64) []c08srvEv {
	var a []c08srvEv
	a = append(a, c08srvEv{K: "REQ"})
	for _, id := range []int64{1, 3} {
		for _, n := range bsizes {
			a = append(a, c08srvEv{K: "BM", A: []int64{id, n}})
		}
	}
	for _, id := range []int64{0, 1, 3} {
		for _, k := range wus {
			a = append(a, c08srvEv{K: "WU", A: []int64{id, k}})
		}
	}
	for _, v := range iws {
		a = append(a, c08srvEv{K: "SETIW", A: []int64{v}})
	}
	for _, id := range []int64{1, 3} {
		a = append(a, c08srvEv{K: "BE", A: []int64{id}})
	}
	for _, id := range []int64{1, 3} {
		a = append(a, c08srvEv{K: "RST", A: []int64{id}})
	}
	for _, id := range []int64{1, 3} {
		a = append(a, c08srvEv{K: "RESP", A: []int64{id}})
	}
	for _, v := range mfss {
		a = append(a, c08srvEv{K: "SETMFS", A: []int64{v}})
	}
	return a
}

func c09Gen(seed []string, alpha []c08srvEv, maxDepth int, onDepth func(int), yield func(c09cliCase) bool) bool {
	base := c09NewModel()
	for _, s := range seed {
		ev, err := c08srvParse(s)
		if err != nil {
			panic(err)
		}
		base.apply(ev)
	}
	for depth := 1; depth <= maxDepth; depth++ {
		path := append([]string(nil), seed...)
		var rec func(m *c09Model, d int) bool
		rec = func(m *c09Model, d int) bool {
			if d == depth {
				return yield(c09cliCase{SeedLen: len(seed), Evs: append([]string(nil), path...)})
			}
			for _, ev := range alpha {
				if !m.enabled(ev) {
					continue
				}
				m2 := m.clone()
				m2.apply(ev)
				path = append(path, c08EvString(ev))
				ok := rec(m2, d+1)
				path = path[:len(path)-1]
				if !ok {
					return false
				}
			}
			return true
		}
		if !rec(base, 0) {
			return false
		}
		if onDepth != nil {
			onDepth(depth)
		}
	}
	return true
}

// ---------------------------------------------------------------------------
// Runner

type c09Result struct {
	trace            []string
	applied, skipped int
	dataFrames       int
	blockedSeen      bool
	overflowSeen     bool
	negWindowSeen    bool
	lateWUSeen       bool // a WINDOW_UPDATE was delivered for a closed stream
	dataAfterLateWU  int  // DATA frames seen after such a WINDOW_UPDATE
}

func c09RunCase(w *vx.W, t testing.TB, cs c09cliCase) (res c09Result, harnessErr string) {
	env := c09cliNew(t, cs.Cfg)
	defer func() {
		env.teardown()
		if harnessErr == "" {
			harnessErr = env.harnessErr
		}
	}()
	mon := c08NewMonitor()
	mon.pfx, mon.who = "C09", "client"
	mon.lastKind = "preface"

	step := func(ctx string) {
		synctest.Wait()
		for _, f := range env.drain() {
			switch f.Type {
			case FrameData:
				res.dataFrames++
				if res.lateWUSeen {
					res.dataAfterLateWU++
				}
			case FrameHeaders:
				if mon.streams[f.Stream] == nil {
					mon.streams[f.Stream] = &c08monStream{id: f.Stream, born: mon.setsSent, base: mon.iwSent}
				}
			case FrameGoAway:
				// a GOAWAY from the client means it is tearing the connection down
			}
			res.trace = append(res.trace, f.String())
			mon.frame(w, f, ctx)
		}
		if env.wireErr != "" {
			w.Failf("C09/wire/unparseable-client-output", "%s: reading the client's output failed: %s", ctx, env.wireErr)
		}
	}
	// client preface: SETTINGS + WINDOW_UPDATE; then our SETTINGS (empty) and the ACK of theirs
	step("preface")
	mon.pending = append(mon.pending, c08PendSet{seq: 0})
	mon.setsSent = 1
	env.wr(env.tc.fr.WriteSettings())
	env.wr(env.tc.fr.WriteSettingsAck())
	step("preface")
	if w.Failed() || env.harnessErr != "" {
		return
	}

	// respEnded: streams whose response the harness ended (END_STREAM sent by
	// the server side). closed: RFC 9113 §5.1 "closed" — reset by either side,
	// or END_STREAM sent in both directions.
	respEnded := map[uint32]bool{}
	closed := func(s *c08monStream) bool {
		return s.srvRST || s.cliRST || (s.ended && respEnded[s.id])
	}

	pending := func(s *c08monStream) int64 {
		r := env.reqByStream(s.id)
		if r == nil || r.body == nil {
			return 0
		}
		return int64(r.body.given) - s.onwire
	}

	quiescent := func(ctx string) {
		if mon.goaway || env.connClosed {
			return
		}
		if len(mon.pending) > 0 {
			return
		}
		for _, s := range mon.streams {
			if !s.alive() || s.overflow {
				continue
			}
			if s.base < 0 {
				res.negWindowSeen = true
			}
			if p := pending(s); p > 0 {
				res.blockedSeen = true
				// Once the server has ended the response the property no longer
				// demands that the rest of the body is sent (the windows still
				// bound whatever is sent).
				if s.base > 0 && mon.cw > 0 && !respEnded[s.id] {
					w.Failf("C09/progress/stalled-with-open-windows/after-"+mon.lastKind, "%s: stream %d has %d request-body bytes not on the wire although stream window=%d and connection window=%d are positive and the system is quiescent", ctx, s.id, p, s.base, mon.cw)
				}
			}
		}
		snap := env.tc.cc.C09cliSnapshot()
		if snap.Closed {
			return
		}
		if int64(snap.ConnFlow) != mon.cw {
			w.Failf("C09/wb/conn-window-mismatch/after-"+mon.lastKind, "%s: cc.flow.n=%d but the RFC 7540 connection send window is %d", ctx, snap.ConnFlow, mon.cw)
		}
		for _, ss := range snap.Streams {
			s := mon.streams[ss.ID]
			if s == nil || !s.alive() || s.overflow || ss.Aborted {
				continue
			}
			if int64(ss.Flow) != s.base {
				w.Failf("C09/wb/stream-window-mismatch/after-"+mon.lastKind, "%s: stream %d cs.flow.n=%d but the RFC 7540 stream send window is %d", ctx, ss.ID, ss.Flow, s.base)
			}
		}
	}

	for i, es := range cs.Evs {
		ev, err := c08srvParse(es)
		if err != nil {
			return res, err.Error()
		}
		if mon.goaway || env.connClosed {
			break
		}
		ctx := fmt.Sprintf("event %d %s", i, es)
		applied := true
		lateWU := false
		switch ev.K {
		case "SETIW", "SETMFS":
			p := c08PendSet{seq: mon.setsSent}
			var set Setting
			if ev.K == "SETIW" {
				p.hasIW, p.iwNew, p.iwOld = true, ev.arg(0), mon.iwSent
				set = Setting{ID: SettingInitialWindowSize, Val: uint32(ev.arg(0))}
				for _, s := range mon.streams {
					if s.alive() && mon.bound(s)+p.iwNew-p.iwOld > c08MaxWin {
						// RFC 7540 §6.9.2: the window cannot be represented; its value is undefined from here on
						s.overflow = true
						res.overflowSeen = true
					}
				}
				mon.iwSent = ev.arg(0)
			} else {
				p.hasMFS, p.mfsNew = true, ev.arg(0)
				set = Setting{ID: SettingMaxFrameSize, Val: uint32(ev.arg(0))}
			}
			mon.pending = append(mon.pending, p)
			mon.setsSent++
			env.wr(env.tc.fr.WriteSettings(set))
		case "REQ":
			if len(env.reqs) >= 2 {
				applied = false
				break
			}
			env.start(true)
		case "BM", "BE":
			id := uint32(ev.arg(0))
			s, r := mon.streams[id], env.reqByStream(id)
			if s == nil || r == nil || r.body == nil || !s.alive() || r.body.eof {
				applied = false
				break
			}
			if ev.K == "BM" {
				r.body.more(int(ev.arg(1)))
			} else {
				r.body.end()
			}
		case "WU":
			id, k := uint32(ev.arg(0)), ev.arg(1)
			if id == 0 {
				if mon.cw+k > c08MaxWin {
					mon.connOverflow = true
					res.overflowSeen = true
				} else {
					mon.cw += k
				}
			} else {
				s := mon.streams[id]
				if s == nil {
					applied = false // idle stream: a WINDOW_UPDATE would be a protocol error of the server
					break
				}
				switch {
				case closed(s):
					// RFC 9113 §5.1 "closed": WINDOW_UPDATE may legally arrive for a
					// short period after the stream was closed or reset. It grants
					// nothing: neither the connection window nor any live stream's
					// window changes.
					lateWU = true
					res.lateWUSeen = true
				case mon.bound(s)+k > c08MaxWin:
					s.overflow = true
					res.overflowSeen = true
				default:
					s.base += k
				}
			}
			env.wr(env.tc.fr.WriteWindowUpdate(id, uint32(k)))
		case "RESP":
			// The server answers and ends its side of the stream: response
			// HEADERS with END_STREAM. Legal while the stream is open or
			// half-closed (local) for the client; the client may keep sending
			// its request body (half-closed (remote)), still bounded by the
			// windows. Together with the client's END_STREAM the stream is closed.
			id := uint32(ev.arg(0))
			s := mon.streams[id]
			if s == nil || s.srvRST || s.cliRST || respEnded[id] {
				applied = false
				break
			}
			respEnded[id] = true
			env.respHeaders(id, true)
		case "RST":
			id := uint32(ev.arg(0))
			s := mon.streams[id]
			if s == nil || !s.alive() {
				applied = false
				break
			}
			s.cliRST = true // "the DATA receiver reset the stream"
			env.wr(env.tc.fr.WriteRSTStream(id, ErrCodeCancel))
		default:
			return res, "unknown event " + es
		}
		if !applied {
			res.skipped++
			continue
		}
		res.applied++
		mon.lastKind = ev.K
		if ev.K == "WU" {
			switch {
			case ev.arg(0) == 0:
				mon.lastKind = "WU-conn"
			case lateWU:
				mon.lastKind = "WU-closed-stream"
			default:
				mon.lastKind = "WU-stream"
			}
		}
		step(ctx)
		if env.harnessErr != "" || w.Failed() {
			return
		}
		if mon.connOverflow {
			break // the connection window is undefined from here on
		}
		quiescent(ctx)
		if w.Failed() {
			return
		}
	}
	return
}

func c09Check(c *vx.Ctx) func(w *vx.W, cs c09cliCase) {
	return func(w *vx.W, cs c09cliCase) {
		var res c09Result
		c08srvBubble(c, "case", func(t testing.TB) string {
			var herr string
			res, herr = c09RunCase(w, t, cs)
			return herr
		})
		c.AddStates(1)
		c.AddTraces(1)
		c.AddTransitions(int64(res.applied))
		if res.dataFrames > 0 {
			w.Nontrivial()
		}
		switch {
		case res.overflowSeen:
			w.Outcome("window-overflow")
		case res.blockedSeen && res.negWindowSeen:
			w.Outcome("blocked+negative-window")
		case res.blockedSeen:
			w.Outcome("blocked-on-flow-control")
		case res.dataFrames > 0:
			w.Outcome("data-unblocked")
		default:
			w.Outcome("no-data")
		}
		if res.dataAfterLateWU > 0 {
			w.Outcome("data-after-window-update-on-closed-stream")
		}
		if res.skipped > 0 {
			w.Outcome("model-real-disagreement-skipped-event")
		}
	}
}

func TestVerif_C09(t *testing.T) {
	DisableGoroutineTracking(t)
	vx.Run(t, "C09", func(c *vx.Ctx) {
		iws := []int64{0, 3, 10, 65535}
		mfss := []int64{c08InitMFS, c08BigMFS}
		wus := []int64{1, 4, 100, c08MaxWin}
		small := []int64{1, 5, 20}
		big := []int64{1, 5, 20, 20000, 70000}
		type part struct {
			name  string
			seed  []string
			alpha []c08srvEv
			depth int
		}
		seedConn := []string{"REQ", "BM(1,65530)"}
		seedTwo := []string{"SETIW(3)", "REQ", "REQ", "BM(1,5)"}
		seedNeg := []string{"REQ", "BM(1,20)", "SETIW(3)", "REQ"}
		seedBig := []string{"SETMFS(16777215)", "REQ", "WU(1,100000)", "WU(0,100000)"}
		// stream 1 completed in both directions (closed, forgotten by the client)
		// after using all but 5 bytes of the connection window: the connection
		// window, not the stream window, bounds the body of the next request.
		seedClosed := []string{"REQ", "BM(1,65530)", "BE(1)", "RESP(1)"}
		aSmall := c09Alphabet(iws, mfss, small, wus)
		aSeed := c09Alphabet(iws, nil, small, wus)
		aBig := c09Alphabet([]int64{0, 65535}, mfss, big, []int64{1, 100})
		parts := []part{
			{"empty", nil, aSmall, vx.Pick(c, 4, 5)},
			{"conn-nearly-full", seedConn, aSeed, vx.Pick(c, 3, 4)},
			{"two-streams-blocked", seedTwo, aSeed, vx.Pick(c, 3, 4)},
			{"negative-window", seedNeg, aSeed, vx.Pick(c, 3, 4)},
			{"big-bodies", seedBig, aBig, vx.Pick(c, 3, 4)},
			{"closed-stream-conn-nearly-full", seedClosed, aSeed, vx.Pick(c, 3, 4)},
		}
		c.Rule("EV: for each seed prefix every event sequence of depth 1..D after the seed over {REQ (<=2 concurrent POSTs with harness-fed bodies), body bytes available (n), body EOF, server WINDOW_UPDATE(conn|stream, k) where the stream is any stream opened so far in any RFC 9113 §5.1 state (open, half-closed either way, closed by END_STREAM in both directions or by RST_STREAM: the late WINDOW_UPDATE a server may legally send shortly after close, which grants nothing), server response HEADERS+END_STREAM (the client may finish its body on the half-closed stream), server SETTINGS INITIAL_WINDOW_SIZE / MAX_FRAME_SIZE, server RST_STREAM}, at most two requests per connection (the second may start after the first stream closed), pruned by a predictive model and decided on the real state at run time; each sequence runs on a fresh real Transport ClientConn in its own synctest bubble; after every event: quiescence, drain all frames, RFC 7540 §6.9 window accounting on every DATA frame, frame length vs MAX_FRAME_SIZE, progress at quiescence, white-box cc.flow/cs.flow == monitor. non-trivial = the client emitted at least one DATA frame; states = explored event histories (stateless search), transitions = events applied to the real ClientConn and checked at quiescence, traces = histories executed to their end")
		c.Assume("interleavings are explored at event granularity (L2)")
		c.Assume("after a WINDOW_UPDATE/SETTINGS that would push a window above 2^31-1 that window is undefined and no longer checked (the reaction to the overflow itself is not part of C09)")
		c.Assume("progress is checked only as: at quiescence no live stream has available request-body bytes off the wire while both its windows are positive (L4); not demanded for a stream whose response the server has already ended")
		c08Determinism(c, func(w *vx.W, t testing.TB) ([]string, string) {
			res, herr := c09RunCase(w, t, c09cliCase{Evs: []string{"SETIW(3)", "REQ", "REQ", "BM(1,5)", "BM(3,20)", "WU(1,4)", "SETIW(10)", "BE(1)", "RST(3)"}})
			return res.trace, herr
		})
		for _, p := range parts {
			p := p
			completed := 0
			vx.Enumerate(c, p.name, vx.Opts{Serial: true, Crumb: true},
				func(yield func(c09cliCase) bool) {
					c09Gen(p.seed, p.alpha, p.depth, func(d int) { completed = d }, yield)
				},
				c09Check(c))
			if completed < p.depth && !c.Replaying() {
				c.Cap(fmt.Sprintf("part %s: depth %d of %d completed", p.name, completed, p.depth))
			}
			c.Note(p.name+".depth", p.depth)
		}
	})
}
