//go:build !(go1.27 && !http2legacy)

package http2

// White-box helpers for the Transport harnesses (C17, C18).

// C18CanRetry is the Transport's own classification of a RoundTrip error as
// "retry on another connection".
func C18CanRetry(err error) bool { return canRetryError(err) }

// C18ErrGotGoAway is the error a stream above a GOAWAY's last-stream-id is aborted with.
var C18ErrGotGoAway = errClientConnGotGoAway

// C18ErrUnusable is returned when a connection cannot take the request.
var C18ErrUnusable = errClientConnUnusable
