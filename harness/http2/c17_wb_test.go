//go:build !(go1.27 && !http2legacy)

package http2

// White-box helpers for the Transport harnesses (C17, C18).

// C18CanRetry is the Transport's own classification of a RoundTrip error as
// "retry on another connection".
func C18CanRetry(err error) bool { return canRetryError(err) }

// C18ErrGotGoAway is the error a stream above a GOAWAY's last-stream-id is aborted with.
var C18ErrGotGoAway = errClientConnGotGoAway

// C18ErrUnusable is returned when a connection cannot take the request.
var C18ErrUnusable = errClientConnUnusable

// C17WriteBusy reports whether some goroutine holds the connection's write
// lock (wmu) and whether one holds the new-request lock (reqHeaderMu). Used by
// the harness only to keep cases out of states that testing/synctest cannot
// wait on (a goroutine blocked on a sync.Mutex is not durably blocked).
func (cc *ClientConn) C17WriteBusy() (wmuHeld, reqHeaderHeld bool) {
	if cc.wmu.TryLock() {
		cc.wmu.Unlock()
	} else {
		wmuHeld = true
	}
	return wmuHeld, len(cc.reqHeaderMu) > 0
}

// C17ErrRequestHeaderListSize is the error of a request whose header list is
// larger than the peer's SETTINGS_MAX_HEADER_LIST_SIZE (a local failure after
// the stream id was assigned and before anything is written).
var C17ErrRequestHeaderListSize = errRequestHeaderListSize
