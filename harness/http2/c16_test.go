//go:build !(go1.27 && !http2legacy)

package http2_test

// C16 — the HTTP/2 server survives any client byte stream.
//
// Bounded exhaustive "mutation alphabet" sessions against a real server in a
// synctest bubble (c15srv harness): every sequence of a few raw frame templates
// (valid ones and single-field corruptions), every truncation offset, broken
// prefaces, sessions played while the client does not read (the server's
// writer is stuck), sessions that keep sending frames on a stream whose
// RST_STREAM is still queued behind the stuck writer, sessions in which a
// non-reading client makes the server owe just enough acknowledgements that
// its queued responses reach the end of the write buffer at every offset,
// sessions that continue
// after the connection has entered a graceful shutdown that is still waiting
// for a request whose handler does not finish by itself (client GOAWAY with
// and without an error code, or a "Connection: close" response), and four
// flood macro-events. Oracle: no panic (serve
// goroutine panics are caught by the package's panic hook, any other panic
// kills the shard and is attributed through the breadcrumb), the serve loop
// stays responsive, white-box bounds on queued control frames and handlers at
// every quiescent point, and at the end of every session — within 30 s of fake
// time — the server either still answers a PING or has ended the connection,
// and it winds down completely after the client hangs up.

import (
	"encoding/binary"
	"fmt"
	"io"
	"net/http"
	"strings"
	"testing"
	"testing/synctest"
	"time"

	. "golang.org/x/net/http2"
	"golang.org/x/net/internal/zzverif/vx"
)

type c16Case struct {
	Cfg   string   `json:"cfg"`   // scheduler ("", rr, 7540, rand) + handler mode "-hw" (writes), "-hb" (blocks until cancelled), "-hi" (ignores cancellation), "-hc" (answers with "Connection: close", then blocks until cancelled) + "-blk" (client does not read) + "-m1" (MAX_CONCURRENT_STREAMS 1 instead of 2)
	Pre   string   `json:"pre"`   // preface variant: ok, none, short, wrong, nosettings
	Items []string `json:"items"` // frame templates / flood macros
	Cut   int      `json:"cut"`   // >0: the last item is truncated to its first Cut bytes
	Burst bool     `json:"burst"` // write everything (and the close) at once instead of item by item
}

func c16Frame(typ FrameType, flags byte, stream uint32, payload []byte) []byte {
	b := make([]byte, 9, 9+len(payload))
	b[0], b[1], b[2] = byte(len(payload)>>16), byte(len(payload)>>8), byte(len(payload))
	b[3], b[4] = byte(typ), flags
	binary.BigEndian.PutUint32(b[5:], stream)
	return append(b, payload...)
}

func c16U32(v ...uint32) []byte {
	var b []byte
	for _, x := range v {
		b = binary.BigEndian.AppendUint32(b, x)
	}
	return b
}

func c16Setting(id uint16, val uint32) []byte {
	b := binary.BigEndian.AppendUint16(nil, id)
	return binary.BigEndian.AppendUint32(b, val)
}

// a complete, state-free request header block: GET https://h/
var c16Req = []byte{0x82, 0x87, 0x84, 0x01, 0x01, 'h'}

// c16Items: name -> bytes. Valid templates first, then single-field corruptions.
var c16Items = map[string][]byte{
	// valid
	"SET":     c16Frame(FrameSettings, 0, 0, nil),
	"SETw0":   c16Frame(FrameSettings, 0, 0, c16Setting(4, 0)),
	"SETack":  c16Frame(FrameSettings, 1, 0, nil),
	"H1":      c16Frame(FrameHeaders, 0x5, 1, c16Req),
	"H1o":     c16Frame(FrameHeaders, 0x4, 1, c16Req),
	"H3":      c16Frame(FrameHeaders, 0x5, 3, c16Req),
	"H3o":     c16Frame(FrameHeaders, 0x4, 3, c16Req),
	"H1c":     c16Frame(FrameHeaders, 0x1, 1, c16Req[:2]),
	"CONT1":   c16Frame(FrameContinuation, 0x4, 1, c16Req[2:]),
	"CONT1e":  c16Frame(FrameContinuation, 0, 1, nil),
	"D1":      c16Frame(FrameData, 0x1, 1, []byte("x")),
	"D1m":     c16Frame(FrameData, 0, 1, []byte("xy")),
	"D1p":     c16Frame(FrameData, 0x9, 1, []byte{2, 'x', 0, 0}),
	"R1":      c16Frame(FrameRSTStream, 0, 1, c16U32(8)),
	"R3":      c16Frame(FrameRSTStream, 0, 3, c16U32(8)),
	"PING":    c16Frame(FramePing, 0, 0, []byte("12345678")),
	"PINGack": c16Frame(FramePing, 1, 0, []byte("12345678")),
	"WU0":     c16Frame(FrameWindowUpdate, 0, 0, c16U32(1)),
	"WU1":     c16Frame(FrameWindowUpdate, 0, 1, c16U32(1)),
	"PRI1":    c16Frame(FramePriority, 0, 1, append(c16U32(0), 16)),
	"GOAWAY":  c16Frame(FrameGoAway, 0, 0, c16U32(0, 0)),
	"PU1":     c16Frame(FrameType(0x10), 0, 0, append(c16U32(1), "u=1"...)),
	"UNK":     c16Frame(FrameType(0xfe), 0xff, 1, []byte("abc")),
	// corruptions
	"SETlen5":    c16Frame(FrameSettings, 0, 0, []byte{0, 4, 0, 0, 0}),
	"SETacklen":  c16Frame(FrameSettings, 1, 0, c16Setting(4, 1)),
	"SETstream":  c16Frame(FrameSettings, 0, 1, nil),
	"SETpush2":   c16Frame(FrameSettings, 0, 0, c16Setting(2, 2)),
	"SETwinbig":  c16Frame(FrameSettings, 0, 0, c16Setting(4, 1<<31)),
	"SETmfs1":    c16Frame(FrameSettings, 0, 0, c16Setting(5, 1)),
	"SETdup":     c16Frame(FrameSettings, 0, 0, append(c16Setting(4, 1), c16Setting(4, 2)...)),
	"SETtbl0":    c16Frame(FrameSettings, 0, 0, c16Setting(1, 0)),
	"PINGlen7":   c16Frame(FramePing, 0, 0, []byte("1234567")),
	"PINGstream": c16Frame(FramePing, 0, 1, []byte("12345678")),
	"WUzero0":    c16Frame(FrameWindowUpdate, 0, 0, c16U32(0)),
	"WUzero1":    c16Frame(FrameWindowUpdate, 0, 1, c16U32(0)),
	"WUlen3":     c16Frame(FrameWindowUpdate, 0, 0, []byte{0, 0, 1}),
	"WUbig0":     c16Frame(FrameWindowUpdate, 0, 0, c16U32(1<<31-1)),
	"WUbig1":     c16Frame(FrameWindowUpdate, 0, 1, c16U32(1<<31-1)),
	"WUidle":     c16Frame(FrameWindowUpdate, 0, 9, c16U32(1)),
	"Rlen3":      c16Frame(FrameRSTStream, 0, 1, []byte{0, 0, 8}),
	"R0":         c16Frame(FrameRSTStream, 0, 0, c16U32(8)),
	"Ridle":      c16Frame(FrameRSTStream, 0, 9, c16U32(8)),
	"D0":         c16Frame(FrameData, 0, 0, []byte("x")),
	"Didle":      c16Frame(FrameData, 0, 9, []byte("x")),
	"Dpadbad":    c16Frame(FrameData, 0x8, 1, []byte{9, 'x'}),
	"HUGE":       {0xff, 0xff, 0xff, 0x0, 0x0, 0, 0, 0, 1},
	"H0":         c16Frame(FrameHeaders, 0x5, 0, c16Req),
	"H2":         c16Frame(FrameHeaders, 0x5, 2, c16Req),
	"Hpadbad":    c16Frame(FrameHeaders, 0xd, 1, append([]byte{200}, c16Req...)),
	"Hpriolen":   c16Frame(FrameHeaders, 0x25, 1, []byte{0, 0, 0}),
	"Hprioself":  c16Frame(FrameHeaders, 0x25, 1, append(append(c16U32(1), 16), c16Req...)),
	"Hgarbage":   c16Frame(FrameHeaders, 0x5, 1, []byte{0xff, 0xff, 0xff, 0xff, 0xff}),
	"Hidx0":      c16Frame(FrameHeaders, 0x5, 1, []byte{0x80}),
	"Hstrhuge":   c16Frame(FrameHeaders, 0x5, 1, []byte{0x00, 0x7f, 0xff, 0xff, 0xff, 0x0f}),
	"Htblupd":    c16Frame(FrameHeaders, 0x5, 1, append([]byte{0x3f, 0xe1, 0xff, 0x03}, c16Req...)),
	"Hupper":     c16Frame(FrameHeaders, 0x5, 1, append(append([]byte(nil), c16Req...), 0x00, 0x01, 'X', 0x01, 'v')),
	"Hnopath":    c16Frame(FrameHeaders, 0x5, 1, []byte{0x82, 0x87}),
	"Hconnect":   c16Frame(FrameHeaders, 0x5, 1, []byte{0x02, 0x07, 'C', 'O', 'N', 'N', 'E', 'C', 'T', 0x01, 0x01, 'h'}),
	"CONTorphan": c16Frame(FrameContinuation, 0x4, 1, c16Req),
	"CONT3":      c16Frame(FrameContinuation, 0x4, 3, c16Req[2:]),
	"PP":         c16Frame(FramePushPromise, 0x4, 1, append(c16U32(2), c16Req...)),
	"GOAWAYlen7": c16Frame(FrameGoAway, 0, 0, []byte{0, 0, 0, 0, 0, 0, 0}),
	"GOAWAYs1":   c16Frame(FrameGoAway, 0, 1, c16U32(0, 0)),
	"GOAWAYerr":  c16Frame(FrameGoAway, 0, 0, c16U32(0, 2)),
	"PRIlen4":    c16Frame(FramePriority, 0, 1, c16U32(0)),
	"PRI0":       c16Frame(FramePriority, 0, 0, append(c16U32(0), 16)),
	"PRIself":    c16Frame(FramePriority, 0, 1, append(c16U32(1), 16)),
	"PUbad":      c16Frame(FrameType(0x10), 0, 0, append(c16U32(1), 0xff, 0xfe)),
	"PUshort":    c16Frame(FrameType(0x10), 0, 0, []byte{0, 0}),
	"PUstream":   c16Frame(FrameType(0x10), 0, 1, append(c16U32(1), "u=1"...)),
}

// c16ResetTemplates: additional templates for the "queued-reset" sessions (a
// stuck writer keeps the server's RST_STREAM queued while more frames arrive on
// the reset stream). Rejected requests WITHOUT END_STREAM (the stream stays
// "open" with no request body attached), a request with a Content-Length, valid
// trailers, and DATA / WINDOW_UPDATE on a second stream.
var c16ResetTemplates = map[string][]byte{
	"Hnopatho":     c16Frame(FrameHeaders, 0x4, 1, []byte{0x82, 0x87}),
	"Hbadpatho":    c16Frame(FrameHeaders, 0x4, 1, []byte{0x82, 0x87, 0x04, 0x01, 'x', 0x01, 0x01, 'h'}),
	"Hbadconnecto": c16Frame(FrameHeaders, 0x4, 1, []byte{0x02, 0x07, 'C', 'O', 'N', 'N', 'E', 'C', 'T', 0x01, 0x01, 'h', 0x84}),
	"Hprioselfo":   c16Frame(FrameHeaders, 0x24, 1, append(append(c16U32(1), 16), c16Req...)),
	"Huppero":      c16Frame(FrameHeaders, 0x4, 1, append(append([]byte(nil), c16Req...), 0x00, 0x01, 'X', 0x01, 'v')),
	"H1cl":         c16Frame(FrameHeaders, 0x4, 1, append(append([]byte(nil), c16Req...), 0x0f, 0x0d, 0x01, '1')),
	"T1":           c16Frame(FrameHeaders, 0x5, 1, []byte{0x00, 0x01, 't', 0x01, 'v'}),
	"D3m":          c16Frame(FrameData, 0, 3, []byte("xy")),
	"WU3":          c16Frame(FrameWindowUpdate, 0, 3, c16U32(1)),
}

// c16ResetItems is the alphabet of the "queued-reset" sessions: every way to
// use stream 1 for a request (accepted: open / ended / with a Content-Length;
// rejected with a stream error at each stage: framer (invalid field name),
// self-dependency, missing :path, unparsable :path, malformed CONNECT; with and
// without END_STREAM), every frame type a client can then send on that stream
// (each of which is also a second stream error in some state: DATA after
// END_STREAM or beyond Content-Length, a second HEADERS block = trailers with
// pseudo fields / without END_STREAM / on a half-closed stream, WINDOW_UPDATE
// 0 and overflowing, PRIORITY on itself, unparsable PRIORITY_UPDATE), PING,
// and a second stream (refused when MAX_CONCURRENT_STREAMS is 1) with its own
// DATA / WINDOW_UPDATE / RST_STREAM follow-ups.
var c16ResetItems = []string{
	"Hnopatho", "Hnopath", "Hbadpatho", "Hbadconnecto", "Hprioselfo", "Huppero", "H1o", "H1", "H1cl",
	"D1m", "D1", "T1", "R1", "WU1", "WUzero1", "WUbig1", "PRI1", "PRIself", "PU1", "PUbad", "UNK",
	"PING", "H3o", "D3m", "WU3", "R3",
}

// c16BoundaryItems is the alphabet of the frames that follow the fill in the
// "buffer-boundary" sessions: the stream subset below plus a rejected request,
// so that the response that reaches the end of the server's write buffer can be
// a PING ack (17 bytes), a SETTINGS ack (9), an RST_STREAM (13; rejected
// request, WINDOW_UPDATE 0 / overflow), response HEADERS and DATA of a handler
// (with and without END_STREAM), or nothing at all (RST_STREAM from the client).
var c16BoundaryItems = append(append([]string(nil), c16StreamItems...), "Hnopath")

// the stream-oriented subset used for the deep sessions with a stuck writer
var c16StreamItems = []string{"H1o", "H1", "H3", "D1m", "D1", "WUzero1", "WUbig1", "WU1", "R1", "PING", "SET", "SETw0"}

const c16FloodN = 10050

// c16FloodTemplates: the templates repeated c16FloodN times by the
// "FLOOD:rep:" macros (besides PING and SETTINGS): frames on stream 1 that the
// server answers with an RST_STREAM in some state of that stream — idle, open,
// half-closed (remote), closed — and that are (WINDOW_UPDATE 0 / overflowing,
// PRIORITY on itself, unparsable PRIORITY_UPDATE) or are not (DATA, a second
// HEADERS block) ignored on a stream whose RST_STREAM is already queued.
var c16FloodTemplates = []string{"WUbig1", "WUzero1", "PRIself", "PUbad", "D1m", "T1"}

// c16Flood returns the bytes of a flood macro-event.
func c16Flood(name string) []byte {
	var b []byte
	if t, ok := strings.CutPrefix(name, "FLOOD:rep:"); ok {
		// the same frame template, c16FloodN times
		f := c16ItemBytes(t)
		for i := 0; i < c16FloodN; i++ {
			b = append(b, f...)
		}
		return b
	}
	switch name {
	case "FLOOD:newstreams", "FLOOD:newrejected":
		// c16FloodN requests on fresh stream ids (above those of any prefix),
		// none of them reset by the client: complete valid requests (refused
		// once MAX_CONCURRENT_STREAMS handlers are busy) / requests without
		// :path (each rejected with a stream error)
		blk := c16Req
		if name == "FLOOD:newrejected" {
			blk = []byte{0x82, 0x87}
		}
		for i := 0; i < c16FloodN; i++ {
			b = append(b, c16Frame(FrameHeaders, 0x5, uint32(2*i+5), blk)...)
		}
	case "FLOOD:ping":
		f := c16Items["PING"]
		for i := 0; i < c16FloodN; i++ {
			b = append(b, f...)
		}
	case "FLOOD:settings":
		f := c16Items["SET"]
		for i := 0; i < c16FloodN; i++ {
			b = append(b, f...)
		}
	case "FLOOD:rapidreset":
		for i := 0; i < c16FloodN; i++ {
			id := uint32(2*i + 1)
			b = append(b, c16Frame(FrameHeaders, 0x5, id, c16Req)...)
			b = append(b, c16Frame(FrameRSTStream, 0, id, c16U32(8))...)
		}
	case "FLOOD:continuation":
		b = append(b, c16Items["H1c"]...)
		f := c16Items["CONT1e"]
		for i := 0; i < c16FloodN; i++ {
			b = append(b, f...)
		}
	default:
		panic("unknown flood " + name)
	}
	return b
}

// c16Fill returns the bytes of a "FILL:p:s" macro-event: p PING frames followed
// by s empty SETTINGS frames. Each PING is answered with a 17-byte PING ack and
// each SETTINGS with a 9-byte SETTINGS ack, so the macro makes the server owe
// 17p+9s bytes of acknowledgements.
func c16Fill(name string) []byte {
	var p, n int
	if _, err := fmt.Sscanf(name, "FILL:%d:%d", &p, &n); err != nil || p < 0 || n < 0 {
		panic("bad fill " + name)
	}
	var b []byte
	for i := 0; i < p; i++ {
		b = append(b, c16Items["PING"]...)
	}
	for i := 0; i < n; i++ {
		b = append(b, c16Items["SET"]...)
	}
	return b
}

// c16Fills returns the ways a debt of exactly f bytes of acknowledgements is
// built from PING acks (17 bytes) and SETTINGS acks (9 bytes): the one with the
// fewest SETTINGS and the one with the fewest PINGs (the server writes the
// SETTINGS acks first, so the frame that reaches the end of the write buffer is
// a PING ack in the first and, when f is a multiple of 9, a SETTINGS ack in the
// second).
func c16Fills(f int) []string {
	var out []string
	for n := 0; n < 17 && 9*n <= f; n++ {
		if (f-9*n)%17 == 0 {
			out = append(out, fmt.Sprintf("FILL:%d:%d", (f-9*n)/17, n))
			break
		}
	}
	for p := 0; p < 9 && 17*p <= f; p++ {
		if (f-17*p)%9 == 0 {
			if x := fmt.Sprintf("FILL:%d:%d", p, (f-17*p)/9); len(out) == 0 || out[0] != x {
				out = append(out, x)
			}
			break
		}
	}
	return out
}

func c16ItemBytes(name string) []byte {
	if strings.HasPrefix(name, "FLOOD:") {
		return c16Flood(name)
	}
	if strings.HasPrefix(name, "FILL:") {
		return c16Fill(name)
	}
	b, ok := c16Items[name]
	if !ok {
		b, ok = c16ResetTemplates[name]
	}
	if !ok {
		panic("unknown item " + name)
	}
	return b
}

type c16Run struct {
	points  int // quiescent points evaluated
	sent    int // byte-stream items delivered
	noLoop  bool // the preface was not (completely) sent: the serve loop proper has not started
	w       *vx.W
	s       *c15srv
	goAway  bool
	goAwayE bool
	frames  int
	bufFull bool // seen at a quiescent point: the server's write buffer completely full while the client does not read
}

// readOneFrame is the client action "CLI:read1": the client, which has stopped
// reading, takes exactly one frame (9-byte header, then the announced payload)
// out of the connection and stops again. Its receive buffer admits exactly the
// bytes it is about to take, so a server write that was blocked proceeds that
// far and no further.
func (r *c16Run) readOneFrame() {
	s := r.s
	var got []byte
	take := func(n int) bool {
		s.cli.SetReadBufferSize(n)
		synctest.Wait()
		s.cli.SetReadBufferSize(0)
		b := make([]byte, n)
		m := 0
		for m < n {
			k, err := s.cli.Read(b[m:])
			m += k
			if err == io.EOF {
				s.closed = true
			}
			if err != nil || k == 0 {
				break
			}
		}
		got = append(got, b[:m]...)
		return m == n
	}
	if take(9) {
		if n := int(got[0])<<16 | int(got[1])<<8 | int(got[2]); n > 0 {
			take(n)
		}
	}
	fs := s.wire.feed(got, s.step)
	s.frames = append(s.frames, fs...)
	s.step++
	r.note(fs)
	synctest.Wait()
}

func (r *c16Run) fail(sig, format string, a ...any) { r.w.Failf("C16/"+sig, format, a...) }

func (r *c16Run) note(fs []c15Frame) {
	r.frames += len(fs)
	for _, f := range fs {
		if f.Type == FrameGoAway {
			r.goAway = true
			if f.Code != ErrCodeNo {
				r.goAwayE = true
			}
		}
	}
}

func (r *c16Run) tail() string {
	fs := r.s.frames
	var b strings.Builder
	if len(fs) > 12 {
		fmt.Fprintf(&b, " …(%d earlier)", len(fs)-12)
		fs = fs[len(fs)-12:]
	}
	for _, f := range fs {
		fmt.Fprintf(&b, " %v", f)
	}
	return b.String()
}

// check evaluates the quiescent-point clauses: panics, serve-loop
// responsiveness and the white-box bounds.
func (r *c16Run) check(where string) {
	s := r.s
	r.points++
	for _, p := range s.panicList() {
		site, _, _ := strings.Cut(p, ":")
		r.fail("server-panic/"+site, "the serve goroutine panicked (%s): %s; server output:%s", where, p, r.tail())
	}
	if s.sc == nil || len(s.panics) > 0 {
		return
	}
	if !s.sc.C15ServeDone() && !r.noLoop {
		ch := s.sc.C15ServeProbe()
		synctest.Wait()
		select {
		case <-ch:
		default:
			r.fail("liveness/serve-loop-not-responsive", "%s: the serve loop has not returned and does not process messages; server output:%s", where, r.tail())
			return
		}
	}
	if !s.sc.C15ServeDone() {
		pk := s.sc.C15Peek()
		if pk.WritingFrame && s.sc.C16WriteBufAvailable() == 0 {
			r.bufFull = true
		}
		if pk.QueuedControlFrames > MaxQueuedControlFrames+1 {
			r.fail("bounds/queued-control-frames", "%s: %d control frames queued (limit %d)", where, pk.QueuedControlFrames, MaxQueuedControlFrames)
		}
		// the same bound on what is really queued: the write scheduler's
		// queues are walked and the RST_STREAM / PING ack / SETTINGS ack
		// frames in them counted, whatever the server's own counter says
		if rst, pa, sa, ok := s.sc.C16QueuedResponses(); !ok {
			r.fail("harness/unknown-write-scheduler", "%s: the queue walker does not know the connection's write scheduler", where)
		} else if rst+pa+sa > MaxQueuedControlFrames+1 {
			r.fail("bounds/queued-response-frames", "%s: %d RST_STREAM + %d PING ack + %d SETTINGS ack frames are queued in the write scheduler (limit %d; the server's own count of queued control frames is %d) and the connection is still being served; cfg=%s", where, rst, pa, sa, MaxQueuedControlFrames, pk.QueuedControlFrames, r.s.o.Sched)
		}
		if pk.CurHandlers > pk.AdvMaxStreams {
			r.fail("bounds/running-handlers", "%s: curHandlers=%d > advertised MAX_CONCURRENT_STREAMS=%d", where, pk.CurHandlers, pk.AdvMaxStreams)
		}
		if pk.Unstarted > int(4*pk.AdvMaxStreams)+1 {
			r.fail("bounds/unstarted-handlers", "%s: %d handlers queued (limit 4*%d+1)", where, pk.Unstarted, pk.AdvMaxStreams)
		}
	}
	s.mu.Lock()
	maxRunning := s.maxRunning
	s.mu.Unlock()
	if uint32(maxRunning) > s.o.MaxStreams {
		r.fail("bounds/handlers-running-at-once", "%s: %d handlers ran at once, MAX_CONCURRENT_STREAMS=%d", where, maxRunning, s.o.MaxStreams)
	}
}

// waitUntil advances fake time in steps (at most 30 s in total) until cond holds.
func (r *c16Run) waitUntil(blocked bool, cond func() bool) bool {
	for i := 0; i < 31; i++ {
		synctest.Wait()
		if !blocked {
			r.note(r.s.drain())
		}
		if cond() {
			return true
		}
		time.Sleep(time.Second)
	}
	return false
}

func c16Exec(t testing.TB, w *vx.W, cs c16Case) {
	var o c15srvOpts
	o.MaxStreams = 2
	blocked := false
	hmode := "hw"
	for i, p := range strings.Split(cs.Cfg, "-") {
		switch {
		case i == 0:
			o.Sched = p
		case p == "blk":
			blocked = true
		case p == "m1":
			o.MaxStreams = 1
		case p == "hw" || p == "hb" || p == "hi" || p == "hc":
			hmode = p
		}
	}
	release := make(chan struct{})
	o.Handler = func(rw http.ResponseWriter, req *http.Request) {
		if hmode == "hw" {
			rw.Write([]byte("hello"))
			if f, ok := rw.(http.Flusher); ok {
				f.Flush()
			}
			return
		}
		if hmode == "hi" {
			<-release // a handler that ignores cancellation
			return
		}
		if hmode == "hc" {
			// the response asks for the connection to be closed (the server
			// starts a graceful shutdown), then the handler blocks
			rw.Header().Set("Connection", "close")
			rw.Write([]byte("hello"))
			if f, ok := rw.(http.Flusher); ok {
				f.Flush()
			}
		}
		<-req.Context().Done()
	}
	s := c15srvNew(t, o)
	defer s.finish()
	defer close(release)
	r := &c16Run{w: w, s: s}
	defer func() {
		w.Ctx().AddTransitions(int64(r.sent))
		w.Ctx().AddStates(int64(r.points))
	}()

	var all []byte
	aligned := true
	send := func(b []byte) {
		r.sent++
		if cs.Burst {
			all = append(all, b...)
			return
		}
		s.sendRaw(b)
		synctest.Wait()
		if !blocked {
			r.note(s.drain())
		}
	}
	switch cs.Pre {
	case "ok", "":
		send(append([]byte(ClientPreface), c16Items["SET"]...))
		if !cs.Burst && !blocked {
			s.sendRaw(c16Items["SETack"])
			synctest.Wait()
			r.note(s.drain())
		}
	case "nosettings":
		send([]byte(ClientPreface))
	case "none":
		r.noLoop = true
	case "short":
		r.noLoop = true
		send([]byte(ClientPreface[:10]))
		aligned = false
	case "wrong":
		r.noLoop = true
		b := []byte(ClientPreface)
		b[5] ^= 0x20
		send(b)
	case "split":
		send([]byte(ClientPreface[:10]))
		send(append([]byte(ClientPreface[10:]), c16Items["SET"]...))
	default:
		panic("unknown preface variant " + cs.Pre)
	}
	if !cs.Burst {
		r.check("after the preface")
		if w.Failed() {
			return
		}
	}
	if blocked {
		// from now on the client does not read: one byte of receive buffer
		r.note(s.drain())
		s.cli.SetReadBufferSize(1)
	}
	for i, it := range cs.Items {
		if it == "CLI:read1" {
			if cs.Burst || !blocked {
				panic("CLI:read1 needs an item-by-item session with a non-reading client")
			}
			if s.writeErr || s.closed {
				break
			}
			r.readOneFrame()
			r.check("after the client read one frame and stopped reading again")
			if w.Failed() {
				return
			}
			continue
		}
		b := c16ItemBytes(it)
		if i == len(cs.Items)-1 && cs.Cut > 0 {
			if cs.Cut >= len(b) {
				w.Outcome("pruned:cut-beyond-item")
				return
			}
			b = b[:cs.Cut]
			aligned = false
		}
		if s.writeErr || (s.closed && !cs.Burst) {
			break // connection is gone; later bytes cannot be delivered
		}
		send(b)
		if !cs.Burst {
			r.check("after item " + it)
			if w.Failed() {
				return
			}
		}
	}
	if cs.Burst {
		// everything, and the hang-up, in one go
		s.sendRaw(all)
		s.cli.Close()
		ok := r.waitUntil(true, func() bool {
			select {
			case <-s.serveRet:
				return true
			default:
				return false
			}
		})
		r.check("after a burst + close")
		if !ok && !w.Failed() {
			r.fail("liveness/serve-not-returned-after-client-close", "ServeConn has not returned 30 s after the client closed the connection (burst); cfg=%s", cs.Cfg)
		}
		c16Classify(w, r, "burst")
		return
	}
	if blocked {
		// the client reads again
		s.cli.SetReadBufferSize(1 << 30)
		for i := 0; i < 64; i++ {
			fs := s.settle()
			r.note(fs)
			if len(fs) == 0 {
				break
			}
		}
		r.check("after the client resumed reading")
		if w.Failed() {
			return
		}
	}
	// bounded-time outcome: keeps serving, or ends the connection
	outcome := ""
	switch {
	case s.closed || s.writeErr:
		outcome = "closed"
	case r.goAwayE:
		if !r.waitUntil(false, func() bool { return s.closed }) {
			r.fail("liveness/connection-not-closed-after-error-goaway", "30 s after GOAWAY with an error code the connection is still open; server output:%s", r.tail())
			return
		}
		outcome = "goaway-then-closed"
	case !aligned:
		// mid-frame: the server may wait for the rest, or give up (preface timeout)
		r.waitUntil(false, func() bool { return s.closed })
		if s.closed {
			outcome = "closed-while-waiting-for-bytes"
		} else {
			outcome = "waiting-for-bytes"
		}
	default:
		probe := [8]byte{'p', 'r', 'o', 'b', 'e', '!', '!', '!'}
		s.fr.WritePing(false, probe)
		s.send()
		acked := func() bool {
			for i := len(s.frames) - 1; i >= 0; i-- {
				if f := s.frames[i]; f.Type == FramePing && f.Ack && f.Ping == probe {
					return true
				}
			}
			return false
		}
		if !r.waitUntil(false, func() bool { return acked() || s.closed || r.goAwayE }) {
			r.fail("liveness/neither-serving-nor-closed", "a valid PING was not answered within 30 s and the connection was neither closed nor given a GOAWAY with an error; server output:%s", r.tail())
			return
		}
		switch {
		case acked():
			outcome = "serving"
		case s.closed:
			outcome = "closed-on-probe"
		default:
			outcome = "goaway-on-probe"
			if !r.waitUntil(false, func() bool { return s.closed }) {
				r.fail("liveness/connection-not-closed-after-error-goaway", "30 s after GOAWAY with an error code the connection is still open; server output:%s", r.tail())
				return
			}
		}
	}
	r.check("at the end of the session")
	if w.Failed() {
		return
	}
	// the client hangs up: the server must wind down
	s.cli.Close()
	ok := r.waitUntil(true, func() bool {
		select {
		case <-s.serveRet:
		default:
			return false
		}
		s.mu.Lock()
		defer s.mu.Unlock()
		return s.running == 0 || hmode == "hi"
	})
	r.check("after the client closed the connection")
	if !ok && !w.Failed() {
		s.mu.Lock()
		running := s.running
		s.mu.Unlock()
		r.fail("liveness/serve-not-returned-after-client-close", "30 s after the client closed the connection ServeConn has not returned or %d handler(s) are still running", running)
	}
	c16Classify(w, r, outcome)
}

func c16Classify(w *vx.W, r *c16Run, outcome string) {
	if w.Failed() {
		return
	}
	w.Nontrivial()
	w.Ctx().AddTraces(1)
	s := r.s
	s.mu.Lock()
	h := len(s.enters) > 0
	s.mu.Unlock()
	if h {
		outcome += "+handler-ran"
	}
	if r.goAway && !r.goAwayE {
		outcome += "+graceful-goaway"
	}
	if r.bufFull {
		outcome += "+write-buffer-full"
	}
	w.Outcome(outcome)
}

func c16RunCase(c *vx.Ctx, w *vx.W, cs c16Case) {
	synctest.Test(c.T, func(t *testing.T) {
		defer func() {
			if r := recover(); r != nil {
				w.Failf("C16/harness/panic", "panic in the harness: %v", r)
			}
		}()
		c16Exec(t, w, cs)
	})
}

func TestVerif_C16(t *testing.T) {
	vx.Run(t, "C16", func(c *vx.Ctx) {
		var names []string
		for k := range c16Items {
			names = append(names, k)
		}
		sortedNames := append([]string(nil), names...)
		for i := 1; i < len(sortedNames); i++ {
			for j := i; j > 0 && sortedNames[j] < sortedNames[j-1]; j-- {
				sortedNames[j], sortedNames[j-1] = sortedNames[j-1], sortedNames[j]
			}
		}
		names = sortedNames
		seqLen := vx.Pick(c, 2, 3)
		blkLen := 4
		rstLen := vx.Pick(c, 3, 4)
		rstBlockers := vx.Pick(c, []string{"PING"}, []string{"PING", "SET"})
		shutLen := vx.Pick(c, 1, 2)
		bndLen := vx.Pick(c, 1, 2)
		bndW := vx.Pick(c, 48, 128) // free bytes swept: 0..bndW (PING ack 17, SETTINGS ack 9, RST_STREAM 13, response HEADERS+DATA of the harness handler < 128)
		bndW2 := 48                 // the same for sessions with 2 templates after the fill
		bndScheds := vx.Pick(c, []string{""}, []string{"", "7540", "rr", "rand"})
		c.Rule(fmt.Sprintf("sessions over %d raw frame templates (valid frames of every type and single-field corruptions: lengths, stream ids, flags, padding, HPACK garbage, limits): (frames) valid preface+SETTINGS then every sequence of <=%d templates, item by item and as one burst followed by an immediate hang-up, handler writing / handler blocking; (truncate) every sequence of <=%d templates cut at every byte offset of its last template; (preface) no / short / wrong / split preface and missing SETTINGS before every template; (stuck-writer) every sequence of <=%d templates of a 12-template stream subset while the client does not read, for each of the four write schedulers (quick: length-4 sessions on the RFC 7540 scheduler only), then the client reads again; (queued-reset) the client stops reading, a PING (thorough: PING or SETTINGS) is answered so that the writer is blocked in a flush and every RST_STREAM the server produces stays queued, then every sequence of <=%d templates of a %d-template alphabet — requests on stream 1 accepted (open / END_STREAM / Content-Length 1) and rejected with a stream error at every stage (invalid field name in the framer, self-dependency, no :path, unparsable :path, malformed CONNECT; with and without END_STREAM), then every frame type on that stream (DATA with/without END_STREAM, trailers and repeated HEADERS, RST_STREAM, WINDOW_UPDATE 1 / 0 / overflowing, PRIORITY, PRIORITY on itself, PRIORITY_UPDATE valid / unparsable, unknown type), PING, and a second stream with DATA / WINDOW_UPDATE / RST_STREAM — with MAX_CONCURRENT_STREAMS 2 and 1 (second stream refused) on all four schedulers (length-%d sessions: after PING on the default RFC 9218 scheduler with MAX_CONCURRENT_STREAMS 2 only), then the client reads again; (buffer-boundary) the client stops reading, a PING (thorough: PING or SETTINGS) is answered so that the writer is blocked in a flush, then the client sends p PINGs and s SETTINGS so that the server owes exactly f = 17p+9s bytes of acks, for every f from %d-%d to %d (the server's write buffer size) in the composition with the fewest SETTINGS and in the one with the fewest PINGs, then every sequence of <=%d templates of the stream subset + a rejected request (2-template sequences: f >= %d-%d, default scheduler, after PING), then the client takes exactly one frame out of the connection and stops reading again, so that the server writes its queued responses back-to-back and every kind of response (PING ack, SETTINGS ack, RST_STREAM, response HEADERS / DATA) is started with every number 0..%d of bytes free in the write buffer while the peer accepts nothing (quick: default scheduler; thorough: all four), then the client reads again; (shutdown) a request on stream 1 (body left open / END_STREAM) whose handler blocks until cancelled / ignores cancellation / finishes at once, then a client GOAWAY (NO_ERROR / with an error code) — or no GOAWAY and a handler that answers with \"Connection: close\" and then blocks — so that the connection is in a graceful shutdown that waits for the stream (or has just completed), then every sequence of <=%d templates of the full alphabet, item by item and (<=1 template) as one burst followed by an immediate hang-up; (floods) %d x PING / SETTINGS / HEADERS+RST_STREAM / empty CONTINUATION with reading and non-reading client on all four schedulers, and %d x each frame that makes the server owe one RST_STREAM per received frame — on stream 1 WINDOW_UPDATE overflowing / 0, PRIORITY on itself, unparsable PRIORITY_UPDATE, DATA, a second HEADERS block, against every state of that stream (idle / open / half-closed (remote) / closed by RST_STREAM; thorough: + implicitly closed by a higher stream id), and complete / :path-less requests on ever new stream ids that the client never resets — after a PING whose ack blocks the writer of a non-reading client in a flush, so that nothing the flood provokes is written before its end (quick: default scheduler, handler blocking; thorough: all four schedulers, handler blocking / writing, and also with the writer free or blocked only by its first response, and the four older floods after the blocking PING); each session on a fresh real server in its own synctest bubble; non-trivial = session ran to its end-of-session probe", len(names), seqLen, vx.Pick(c, 1, 2), blkLen, rstLen, len(c16ResetItems), rstLen, C16WriteBufSize, bndW, C16WriteBufSize, bndLen, C16WriteBufSize, bndW2, bndW, shutLen, c16FloodN, c16FloodN))
		c.Assume("\"bounded time\" is 30 s of synctest fake time; a session that stops in the middle of a frame may leave the server waiting for the rest (no read timeout is configured), which counts as serving; after GOAWAY without error the server is still required to answer PING or to have closed")
		c.Assume("panics on the serve goroutine are observed through the package's testHookOnPanic (the connection is torn down instead of the process); panics on any other goroutine kill the shard and are attributed by the driver (crash_is_violation)")
		opts := vx.Opts{Serial: true, Crumb: true}
		// buffer-boundary: the client has stopped reading and the answer to
		// its PING (thorough: or SETTINGS) is blocked in a flush. The client
		// then makes the server owe exactly f bytes of PING / SETTINGS acks,
		// for every f from bufsize-bndW to bufsize, sends a few more frames,
		// and finally takes one frame (the blocked answer) out of the
		// connection without reading on. The server now writes everything it
		// owes back-to-back, so that every kind of response is started with
		// every number of free bytes 0..bndW left in the write buffer while
		// the connection accepts no more bytes; a frame that does not fit must
		// not be written by the serve goroutine.
		vx.Enumerate(c, "buffer-boundary", opts, func(yield0 func(c16Case) bool) {
			yield := c15Yield(c, yield0)
			for n := 0; n <= bndLen; n++ {
				for _, sc := range bndScheds {
					for _, blocker := range rstBlockers {
						if n == bndLen && n > 1 && (sc != "" || blocker != "PING") {
							continue // the deepest level on one configuration only
						}
						w := bndW
						if n > 1 {
							w = bndW2
						}
						for d := 0; d <= w; d++ {
							for _, fill := range c16Fills(C16WriteBufSize - d) {
								ok := vx.Strings(c16BoundaryItems, n, n, func(items []string) bool {
									if !c16PlausibleStream(items) {
										return true
									}
									its := append([]string{blocker, fill}, items...)
									return yield(c16Case{Cfg: sc + "-hw-blk", Pre: "ok", Items: append(its, "CLI:read1")})
								})
								if !ok {
									return
								}
							}
						}
					}
				}
			}
		}, func(w *vx.W, cs c16Case) { c16RunCase(c, w, cs) })
		// stuck writer next: it is the deepest part
		scheds := []string{"7540", "", "rr", "rand"}
		vx.Enumerate(c, "stuck-writer", opts, func(yield0 func(c16Case) bool) {
			yield := c15Yield(c, yield0)
			for n := 1; n <= blkLen; n++ {
				for _, sc := range scheds {
					if c.Quick() && n == blkLen && sc != "7540" {
						continue
					}
					ok := vx.Strings(c16StreamItems, n, n, func(items []string) bool {
						if !c16PlausibleStream(items) {
							return true
						}
						return yield(c16Case{Cfg: sc + "-hw-blk", Pre: "ok", Items: items})
					})
					if !ok {
						return
					}
				}
			}
		}, func(w *vx.W, cs c16Case) { c16RunCase(c, w, cs) })
		// queued-reset: the client has stopped reading and a PING has been
		// answered, so the server's writer is blocked in a flush and every
		// RST_STREAM the server produces stays queued (stream.resetQueued)
		// while the following frames are processed.
		vx.Enumerate(c, "queued-reset", opts, func(yield0 func(c16Case) bool) {
			yield := c15Yield(c, yield0)
			for n := 1; n <= rstLen; n++ {
				for _, sc := range scheds {
					for _, m := range []string{"", "-m1"} {
						for _, blocker := range rstBlockers {
							if n == rstLen && (sc != "" || m != "" || blocker != "PING") {
								continue // the deepest level on one configuration only
							}
							ok := vx.Strings(c16ResetItems, n, n, func(items []string) bool {
								if !c16PlausibleReset(items) {
									return true
								}
								return yield(c16Case{Cfg: sc + "-hw-blk" + m, Pre: "ok", Items: append([]string{blocker}, items...)})
							})
							if !ok {
								return
							}
						}
					}
				}
			}
		}, func(w *vx.W, cs c16Case) { c16RunCase(c, w, cs) })
		// shutdown: the connection has entered a graceful shutdown (client
		// GOAWAY with NO_ERROR / with an error code, or a response carrying
		// "Connection: close") while a request is in progress — with a handler
		// that blocks until cancelled, one that ignores cancellation (the
		// shutdown keeps waiting for the stream) or one that finishes (the
		// shutdown completes and the close timer runs) — and the session goes
		// on with every sequence of templates of the full alphabet.
		vx.Enumerate(c, "shutdown", opts, func(yield0 func(c16Case) bool) {
			yield := c15Yield(c, yield0)
			var prefixes []c16Case
			for _, open := range []string{"H1o", "H1"} {
				for _, mode := range []string{"-hb", "-hi", "-hw"} {
					for _, ga := range []string{"GOAWAY", "GOAWAYerr"} {
						prefixes = append(prefixes, c16Case{Cfg: mode, Pre: "ok", Items: []string{open, ga}})
					}
				}
				prefixes = append(prefixes, c16Case{Cfg: "-hc", Pre: "ok", Items: []string{open}})
			}
			for n := 0; n <= shutLen; n++ {
				for _, p := range prefixes {
					ok := vx.Strings(names, n, n, func(items []string) bool {
						cs := p
						cs.Items = append(append([]string(nil), p.Items...), items...)
						if !yield(cs) {
							return false
						}
						if n <= 1 {
							cs.Burst = true
							return yield(cs)
						}
						return true
					})
					if !ok {
						return
					}
				}
			}
		}, func(w *vx.W, cs c16Case) { c16RunCase(c, w, cs) })
		vx.Enumerate(c, "floods", opts, func(yield0 func(c16Case) bool) {
			yield := c15Yield(c, yield0)
			fscheds, fmodes, fpres := scheds, []string{"-hb-blk", "-hb", "-hw-blk", "-hw"}, [][]string{nil, {"H1o"}, {"H3o"}}
			if c.Quick() {
				fscheds, fmodes, fpres = []string{"7540", ""}, []string{"-hb-blk", "-hw"}, [][]string{nil, {"H3o"}}
			}
			for _, fl := range []string{"FLOOD:ping", "FLOOD:settings", "FLOOD:rapidreset", "FLOOD:continuation"} {
				for _, sc := range fscheds {
					modes := fmodes
					if fl == "FLOOD:rapidreset" {
						modes = append(append([]string(nil), fmodes...), "-hi", "-hi-blk")
					}
					for _, mode := range modes {
						for _, pre := range fpres {
							if fl == "FLOOD:rapidreset" && len(pre) > 0 && pre[0] == "H3o" {
								continue // the flood itself starts at stream 1
							}
							if fl == "FLOOD:rapidreset" && len(pre) > 0 {
								continue
							}
							if fl == "FLOOD:continuation" && len(pre) > 0 && pre[0] == "H1o" {
								continue
							}
							items := append(append([]string(nil), pre...), fl)
							if !c.Quick() && !yield(c16Case{Cfg: sc + mode, Pre: "ok", Items: items}) {
								return
							}
							if !yield(c16Case{Cfg: sc + mode, Pre: "ok", Items: append(append([]string(nil), items...), "PING")}) {
								return
							}
						}
					}
				}
			}
			// every frame kind that makes the server owe one frame (RST_STREAM,
			// PING ack, SETTINGS ack) per received frame, against every state of
			// the stream it names, with the writer free, blocked by its first
			// response, or already blocked in a flush when the flood starts
			// (blocker PING: nothing the flood provokes is written before its end)
			spres := [][]string{nil, {"H1o"}, {"H1"}, {"H1o", "R1"}, {"H3o"}}
			type wedge struct {
				mode    string
				blocker bool
			}
			wedges := []wedge{{"-hb-blk", true}, {"-hw-blk", true}, {"-hb-blk", false}, {"-hw-blk", false}, {"-hb", false}, {"-hw", false}}
			nscheds := scheds
			if c.Quick() {
				spres = [][]string{nil, {"H1o"}, {"H1"}, {"H1o", "R1"}}
				wedges = wedges[:1]
				nscheds = []string{""}
			}
			oldFloods := []string{"FLOOD:ping", "FLOOD:settings", "FLOOD:rapidreset", "FLOOD:continuation"}
			floods := append([]string(nil), oldFloods...)
			for _, t := range c16FloodTemplates {
				floods = append(floods, "FLOOD:rep:"+t)
			}
			floods = append(floods, "FLOOD:newstreams", "FLOOD:newrejected")
			for i, fl := range floods {
				for _, sc := range nscheds {
					for _, wd := range wedges {
						if i < len(oldFloods) && (!wd.blocker || c.Quick()) {
							continue // enumerated above
						}
						for _, pre := range spres {
							if fl == "FLOOD:rapidreset" && len(pre) > 0 {
								continue // the flood itself starts at stream 1
							}
							if fl == "FLOOD:continuation" && len(pre) > 0 && pre[0] != "H3o" {
								continue // the flood opens stream 1
							}
							var items []string
							if wd.blocker {
								items = append(items, "PING")
							}
							items = append(append(items, pre...), fl, "PING")
							if !yield(c16Case{Cfg: sc + wd.mode, Pre: "ok", Items: items}) {
								return
							}
						}
					}
				}
			}
		}, func(w *vx.W, cs c16Case) { c16RunCase(c, w, cs) })
		vx.Enumerate(c, "frames", opts, func(yield0 func(c16Case) bool) {
			yield := c15Yield(c, yield0)
			for n := 1; n <= seqLen; n++ {
				for _, cfg := range []string{"-hw", "-hb", "7540-hw"} {
					if n == seqLen && cfg != "-hw" {
						continue
					}
					ok := vx.Strings(names, n, n, func(items []string) bool {
						if !yield(c16Case{Cfg: cfg, Pre: "ok", Items: items}) {
							return false
						}
						if cfg == "-hw" && n <= vx.Pick(c, 1, 2) {
							return yield(c16Case{Cfg: cfg, Pre: "ok", Items: items, Burst: true})
						}
						return true
					})
					if !ok {
						return
					}
				}
			}
		}, func(w *vx.W, cs c16Case) { c16RunCase(c, w, cs) })
		vx.Enumerate(c, "preface", opts, func(yield0 func(c16Case) bool) {
			yield := c15Yield(c, yield0)
			for _, pre := range []string{"none", "short", "wrong", "split", "nosettings"} {
				for _, burst := range []bool{false, true} {
					if !yield(c16Case{Cfg: "-hw", Pre: pre, Burst: burst}) {
						return
					}
					for _, it := range names {
						if !yield(c16Case{Cfg: "-hw", Pre: pre, Items: []string{it}, Burst: burst}) {
							return
						}
					}
				}
			}
		}, func(w *vx.W, cs c16Case) { c16RunCase(c, w, cs) })
		vx.Enumerate(c, "truncate", opts, func(yield0 func(c16Case) bool) {
			yield := c15Yield(c, yield0)
			tl := vx.Pick(c, 1, 2)
			for n := 1; n <= tl; n++ {
				ok := vx.Strings(names, n, n, func(items []string) bool {
					last := c16Items[items[len(items)-1]]
					for cut := 1; cut < len(last); cut++ {
						if !yield(c16Case{Cfg: "-hw", Pre: "ok", Items: items, Cut: cut}) {
							return false
						}
						if n == 1 && !yield(c16Case{Cfg: "-hw", Pre: "ok", Items: items, Cut: cut, Burst: true}) {
							return false
						}
					}
					return true
				})
				if !ok {
					return
				}
			}
		}, func(w *vx.W, cs c16Case) { c16RunCase(c, w, cs) })
	})
}

// c16PlausibleReset prunes queued-reset sessions that send a non-opening frame
// on stream 1 or 3 before any HEADERS frame has used that stream id (connection
// errors on an idle stream, covered by the "frames" part). PRIORITY and
// PRIORITY_UPDATE are legal for idle streams and are not pruned; a second
// HEADERS block on a used stream id is a trailers block and is not pruned.
func c16PlausibleReset(items []string) bool {
	used1, used3 := false, false
	for _, it := range items {
		switch it {
		case "Hnopatho", "Hnopath", "Hbadpatho", "Hbadconnecto", "Hprioselfo", "Huppero", "H1o", "H1", "H1cl":
			used1 = true
		case "H3o":
			used3 = true
		case "D1m", "D1", "T1", "R1", "WU1", "WUzero1", "WUbig1", "UNK":
			if !used1 {
				return false
			}
		case "D3m", "WU3", "R3":
			if !used3 {
				return false
			}
		}
	}
	return true
}

// c16PlausibleStream prunes stuck-writer sessions that touch stream 1 before it
// has been opened (those prefixes are connection errors already covered by the
// "frames" part).
func c16PlausibleStream(items []string) bool {
	opened1 := false
	for _, it := range items {
		switch it {
		case "H1", "H1o":
			if opened1 {
				return false
			}
			opened1 = true
		case "D1", "D1m", "WUzero1", "WUbig1", "WU1", "R1":
			if !opened1 {
				return false
			}
		}
	}
	return true
}
