package http2

import (
	"bytes"
	"encoding/hex"
	"fmt"
	"io"
	"strings"
	"sync"
	"testing"

	"golang.org/x/net/http2/hpack"
	"golang.org/x/net/internal/zzverif/vx"
)

// C07 — Framer.ReadFrame (with and without ReadMetaHeaders) on adversarial
// input: never panics; never returns a frame longer than the configured
// maximum read size; frames violating the stream-identifier rules or
// HEADERS/PUSH_PROMISE/CONTINUATION contiguity are reported as errors; a
// MetaHeadersFrame returned with a nil error lists pseudo-header fields first,
// has no duplicate or unknown pseudo-header field, holds only valid field names
// and values, and stays within MaxHeaderListSize unless Truncated.
//
// Inputs are frame trains (sequences of frame templates, optionally with the
// last frame cut short), not raw bytes. The oracle is a reference that looks
// only at the 9-byte headers it generated itself (c07Ref: RFC 9113 §4.3, §6,
// RFC 9218 §7.1 stream-id and contiguity rules) plus RFC 9110/9113 field
// validity tables typed here (c07ValidName/c07ValidValue); it never calls
// httpguts or any Framer helper.

// ---------------------------------------------------------------- validity tables (RFC 9110 §5.6.2, §5.5; RFC 9113 §8.2.1)

// tchar = "!" / "#" / "$" / "%" / "&" / "'" / "*" / "+" / "-" / "." / "^" / "_" / "`" / "|" / "~" / DIGIT / ALPHA
const c07TCharPunct = "!#$%&'*+-.^_`|~"

// c07ValidName: a regular (non-pseudo) HTTP/2 field name is a non-empty token
// without upper-case letters.
func c07ValidName(s string) bool {
	if s == "" {
		return false
	}
	for i := 0; i < len(s); i++ {
		b := s[i]
		switch {
		case b >= 'a' && b <= 'z':
		case b >= '0' && b <= '9':
		case strings.IndexByte(c07TCharPunct, b) >= 0:
		default:
			return false // 'A'..'Z', CTL, SP, DEL, ':' and the other delimiters, 0x80..0xff
		}
	}
	return true
}

// c07ValidValue: field-value octets are VCHAR, obs-text, SP and HTAB
// (byte-level rule only; see the assumption on leading/trailing whitespace).
func c07ValidValue(s string) bool {
	for i := 0; i < len(s); i++ {
		b := s[i]
		switch {
		case b == '\t' || b == ' ':
		case b >= 0x21 && b <= 0x7e:
		case b >= 0x80:
		default:
			return false
		}
	}
	return true
}

// RFC 9113 §8.3.1, §8.3.2, RFC 8441 §4.
var c07KnownPseudo = map[string]bool{":method": true, ":scheme": true, ":authority": true, ":path": true, ":status": true, ":protocol": true}

// ---------------------------------------------------------------- frame templates

type c07Cfg struct {
	MaxRead uint32 `json:"max_read"`
	Meta    bool   `json:"read_meta_headers"`
	MaxHL   uint32 `json:"max_header_list_size"` // 0 = default
}

// c07Frame is one frame exactly as put on the wire.
type c07Frame struct {
	T    uint8  `json:"type"`
	F    uint8  `json:"flags"`
	S    uint32 `json:"stream"` // the 32-bit field: reserved bit + 31-bit id
	L    int    `json:"len"`
	Fill uint8  `json:"fill"`                  // payload = L x Fill ...
	P    string `json:"payload_hex,omitempty"` // ... unless an explicit payload is given
}

func c07X(t, f uint8, s uint32, payload []byte) c07Frame {
	return c07Frame{T: t, F: f, S: s, L: len(payload), P: hex.EncodeToString(payload)}
}

func (f c07Frame) payload() []byte {
	if f.P != "" || f.L == 0 {
		b, err := hex.DecodeString(f.P)
		if err != nil || len(b) != f.L {
			panic("harness: bad c07Frame payload")
		}
		return b
	}
	return bytes.Repeat([]byte{f.Fill}, f.L)
}

var c07TypeNames = map[uint8]string{0: "DATA", 1: "HEADERS", 2: "PRIORITY", 3: "RST_STREAM", 4: "SETTINGS", 5: "PUSH_PROMISE", 6: "PING", 7: "GOAWAY", 8: "WINDOW_UPDATE", 9: "CONTINUATION", 0x10: "PRIORITY_UPDATE"}

func c07TypeName(t uint8) string {
	if n, ok := c07TypeNames[t]; ok {
		return n
	}
	return "UNKNOWN"
}

// c07SigName is the type name as used in signatures: lower case, dashes.
func c07SigName(t uint8) string {
	return strings.ToLower(strings.ReplaceAll(c07TypeName(t), "_", "-"))
}

// c07Ref is the reference order/stream-id checker. It sees frame headers only.
type c07Ref struct {
	open uint32 // stream of the unfinished field block, 0 = none
	by   uint8  // type of the frame that opened it
}

// verdict returns "" if the frame breaks none of the rules the property names,
// else the clause it breaks.
func (r *c07Ref) verdict(t c07Frame, maxRead uint32) string {
	if uint32(t.L) > maxRead {
		return "size/frame-longer-than-max-read"
	}
	id := t.S & 0x7fffffff
	if r.open != 0 {
		if t.T != 0x9 {
			return "order/open-" + c07SigName(r.by) + "-block/non-continuation"
		}
		if id != r.open {
			return "order/open-" + c07SigName(r.by) + "-block/continuation-on-other-stream"
		}
	} else if t.T == 0x9 {
		return "order/no-open-block/continuation"
	}
	switch t.T {
	case 0x0, 0x1, 0x2, 0x3, 0x5, 0x9:
		if id == 0 {
			return "stream-id/" + c07SigName(t.T) + "-on-stream-0"
		}
	case 0x4, 0x6, 0x7, 0x10:
		if id != 0 {
			return "stream-id/" + c07SigName(t.T) + "-on-nonzero-stream"
		}
	}
	return ""
}

func (r *c07Ref) advance(t c07Frame) {
	switch t.T {
	case 0x1, 0x5, 0x9:
		if t.F&0x4 != 0 {
			r.open = 0
		} else {
			r.open = t.S & 0x7fffffff
			if t.T != 0x9 {
				r.by = t.T
			}
		}
	}
}

func c07Hex(b []byte) string {
	if len(b) > 96 {
		return fmt.Sprintf("%x…(%d bytes)", b[:96], len(b))
	}
	return fmt.Sprintf("%x", b)
}

func c07Describe(cfg c07Cfg, train []c07Frame, cut int) string {
	var sb strings.Builder
	fmt.Fprintf(&sb, "maxRead=%d meta=%v maxHeaderList=%d train=[", cfg.MaxRead, cfg.Meta, cfg.MaxHL)
	for i, t := range train {
		if i > 0 {
			sb.WriteString(" | ")
		}
		fmt.Fprintf(&sb, "%s flags=%#x stream=%#x len=%d payload=%s", c07TypeName(t.T), t.F, t.S, t.L, c07Hex(t.payload()))
	}
	sb.WriteString("]")
	if cut >= 0 {
		fmt.Fprintf(&sb, " last frame cut after %d bytes", cut)
	}
	return sb.String()
}

// c07PayloadLen is the number of payload-derived bytes a returned frame exposes.
func c07PayloadLen(f Frame) int {
	switch f := f.(type) {
	case *DataFrame:
		return len(f.Data())
	case *HeadersFrame:
		return len(f.HeaderBlockFragment())
	case *ContinuationFrame:
		return len(f.HeaderBlockFragment())
	case *PushPromiseFrame:
		return len(f.HeaderBlockFragment())
	case *GoAwayFrame:
		return len(f.DebugData())
	case *UnknownFrame:
		return len(f.Payload())
	case *PriorityUpdateFrame:
		return len(f.Priority)
	case *SettingsFrame:
		return 6 * f.NumSettings()
	}
	return 0
}

type c07Fields [][2]string

// c07CheckMeta checks the MetaHeadersFrame invariants of the property. exp (if
// known) is the field list the harness encoded into the block.
func c07CheckMeta(w *vx.W, mh *MetaHeadersFrame, cfg c07Cfg, exp c07Fields, expKnown bool, desc func() string) bool {
	sawRegular := false
	seen := map[string]bool{}
	var size uint64
	for i, hf := range mh.Fields {
		size += uint64(len(hf.Name)) + uint64(len(hf.Value)) + 32
		if strings.HasPrefix(hf.Name, ":") {
			if sawRegular {
				w.Failf("C07/meta/pseudo-after-regular", "field %d %q follows a regular field in %v; %s", i, hf.Name, mh.Fields, desc())
				return false
			}
			if !c07KnownPseudo[hf.Name] {
				w.Failf("C07/meta/unknown-pseudo", "field %d is the unknown pseudo-header field %q; %s", i, hf.Name, desc())
				return false
			}
			if seen[hf.Name] {
				w.Failf("C07/meta/duplicate-pseudo", "pseudo-header field %q occurs twice in %v; %s", hf.Name, mh.Fields, desc())
				return false
			}
			seen[hf.Name] = true
		} else {
			sawRegular = true
			if !c07ValidName(hf.Name) {
				w.Failf("C07/meta/invalid-field-name", "field %d has the invalid name %q; %s", i, hf.Name, desc())
				return false
			}
		}
		if !c07ValidValue(hf.Value) {
			w.Failf("C07/meta/invalid-field-value", "field %d (%q) has the invalid value %q; %s", i, hf.Name, hf.Value, desc())
			return false
		}
	}
	limit := uint64(cfg.MaxHL)
	if limit == 0 {
		limit = 16 << 20
	}
	if !mh.Truncated && size > limit {
		w.Failf("C07/meta/over-max-header-list-size-not-truncated", "header list size %d > MaxHeaderListSize %d and Truncated is false: %v; %s", size, limit, mh.Fields, desc())
		return false
	}
	if expKnown {
		ok := len(mh.Fields) <= len(exp) && (mh.Truncated || len(mh.Fields) == len(exp))
		for i := 0; ok && i < len(mh.Fields); i++ {
			ok = mh.Fields[i].Name == exp[i][0] && mh.Fields[i].Value == exp[i][1]
		}
		if !ok {
			w.Failf("C07/meta/fields-differ-from-encoded", "Fields=%v Truncated=%v, the block encodes %q (want all of it, or a prefix when Truncated); %s", mh.Fields, mh.Truncated, exp, desc())
			return false
		}
	}
	return true
}

var c07WirePool = sync.Pool{New: func() any { b := make([]byte, 0, 1024); return &b }}

type c07Exp struct {
	F     c07Fields
	Known bool
}

// c07Run feeds the train to a fresh Framer and checks every ReadFrame result.
// It reports whether the last frame of the train was reached by the reader.
func c07Run(w *vx.W, cfg c07Cfg, train []c07Frame, cut int, expect map[int]c07Exp) (reachedLast bool) {
	n := len(train)
	total := 0
	for _, t := range train {
		total += 9 + t.L
	}
	// scratch buffer reuse only: every byte of wire[:total] is written below
	bufp := c07WirePool.Get().(*[]byte)
	defer c07WirePool.Put(bufp)
	if cap(*bufp) < total {
		*bufp = make([]byte, total)
	}
	wire := (*bufp)[:total:total]
	ends := make([]int, n)
	off := 0
	for k, t := range train {
		h := wire[off : off+9]
		h[0], h[1], h[2], h[3], h[4] = byte(t.L>>16), byte(t.L>>8), byte(t.L), t.T, t.F
		h[5], h[6], h[7], h[8] = byte(t.S>>24), byte(t.S>>16), byte(t.S>>8), byte(t.S)
		p := wire[off+9 : off+9+t.L]
		if t.P != "" {
			if m, err := hex.Decode(p, []byte(t.P)); err != nil || m != t.L {
				panic("harness: bad c07Frame payload")
			}
		} else {
			for i := range p {
				p[i] = t.Fill
			}
		}
		off += 9 + t.L
		ends[k] = off
	}
	complete := n
	startLast := 0
	if n > 1 {
		startLast = ends[n-2]
	}
	if cut >= 0 {
		if cut >= ends[n-1]-startLast {
			panic("harness: cut beyond the last frame")
		}
		wire = wire[: startLast+cut : startLast+cut]
		complete = n - 1
	}
	rd := bytes.NewReader(wire)
	fr := NewFramer(nil, rd)
	fr.SetMaxReadFrameSize(cfg.MaxRead)
	if cfg.Meta {
		fr.ReadMetaHeaders = hpack.NewDecoder(4096, nil)
		fr.MaxHeaderListSize = cfg.MaxHL
	}
	desc := func() string { return c07Describe(cfg, train, cut) }
	var ref c07Ref
	idx, pos := 0, 0
	for call := 0; call <= n+1; call++ {
		if idx == n-1 {
			reachedLast = true
		}
		f, err := fr.ReadFrame()
		newPos := len(wire) - rd.Len()
		if newPos > startLast {
			reachedLast = true
		}
		j := idx
		for j < complete && ends[j] <= newPos {
			j++
		}
		onBoundary := (j > idx && ends[j-1] == newPos) || (j == idx && newPos == pos)
		if err != nil {
			se, isStream := err.(StreamError)
			switch {
			case isStream:
				w.Outcome("stream-error")
			case err == ErrFrameTooLarge:
				w.Outcome("frame-too-large")
			case err == io.EOF || err == io.ErrUnexpectedEOF:
				w.Outcome("eof")
			default:
				if _, ok := err.(ConnectionError); ok {
					w.Outcome("connection-error")
				} else {
					w.Outcome("other-error")
				}
			}
			if !isStream || !onBoundary || j == idx {
				return // terminal for the connection (or not aligned with a frame boundary): nothing further is judged
			}
			_ = se
			for k := idx; k < j; k++ {
				if ref.verdict(train[k], cfg.MaxRead) != "" {
					return // an offending frame, and it was reported as an error
				}
				ref.advance(train[k])
			}
			idx, pos = j, newPos
			continue
		}
		// ---- a frame was returned
		if f == nil {
			w.Failf("C07/result/nil-frame-nil-error", "ReadFrame call %d returned (nil, nil); %s", call, desc())
			return
		}
		if !onBoundary || j == idx {
			sig := "C07/framing/frame-returned-off-frame-boundary"
			if cut >= 0 && newPos > startLast {
				sig = "C07/truncated/frame-returned-from-incomplete-bytes"
			}
			w.Failf(sig, "ReadFrame call %d returned %T after consuming bytes %d..%d, which is not a whole number of frames (frame ends %v, input %d bytes); %s", call, f, pos, newPos, ends, len(wire), desc())
			return
		}
		mh, isMeta := f.(*MetaHeadersFrame)
		if !isMeta && j-idx != 1 {
			w.Failf("C07/framing/one-frame-consumed-several", "ReadFrame call %d returned %T but consumed frames %d..%d; %s", call, f, idx, j-1, desc())
			return
		}
		for k := idx; k < j; k++ {
			if clause := ref.verdict(train[k], cfg.MaxRead); clause != "" {
				w.Failf("C07/"+clause+"-accepted", "ReadFrame call %d returned %T although frame %d of the train (%s flags=%#x stream=%#x len=%d) violates %s; %s",
					call, f, k, c07TypeName(train[k].T), train[k].F, train[k].S, train[k].L, clause, desc())
				return
			}
			ref.advance(train[k])
		}
		h := f.Header()
		t0 := train[idx]
		if uint8(h.Type) != t0.T || uint8(h.Flags) != t0.F || h.StreamID != t0.S&0x7fffffff || int(h.Length) != t0.L {
			w.Failf("C07/result/header-differs-from-wire", "ReadFrame call %d returned header type=%#x flags=%#x stream=%d len=%d for wire frame %d (%s flags=%#x stream=%#x len=%d); %s",
				call, uint8(h.Type), uint8(h.Flags), h.StreamID, h.Length, idx, c07TypeName(t0.T), t0.F, t0.S, t0.L, desc())
			return
		}
		if h.Length > cfg.MaxRead {
			w.Failf("C07/size/returned-length-above-max-read", "returned frame has Length %d > max read size %d; %s", h.Length, cfg.MaxRead, desc())
			return
		}
		if isMeta {
			if ref.open != 0 {
				w.Failf("C07/meta/returned-before-end-headers", "MetaHeadersFrame returned after frames %d..%d but the field block on stream %d has not seen END_HEADERS; %s", idx, j-1, ref.open, desc())
				return
			}
			e := expect[idx]
			if !c07CheckMeta(w, mh, cfg, e.F, e.Known, desc) {
				return
			}
			if mh.Truncated {
				w.Outcome("meta-headers-truncated")
			} else {
				w.Outcome("meta-headers")
			}
		} else {
			if cfg.Meta && t0.T == 0x1 {
				w.Failf("C07/meta/headers-frame-not-merged", "ReadMetaHeaders is set but ReadFrame returned %T for a HEADERS frame; %s", f, desc())
				return
			}
			if pl := c07PayloadLen(f); pl > int(h.Length) {
				w.Failf("C07/size/payload-longer-than-frame", "%T exposes %d payload bytes, frame Length is %d; %s", f, pl, h.Length, desc())
				return
			}
			w.Outcome("frame:" + c07TypeName(t0.T))
		}
		idx, pos = j, newPos
	}
	return
}

// ---------------------------------------------------------------- HPACK input construction (inputs only)

func c07AppendInt(dst []byte, prefixBits uint, first byte, n int) []byte {
	max := 1<<prefixBits - 1
	if n < max {
		return append(dst, first|byte(n))
	}
	dst = append(dst, first|byte(max))
	n -= max
	for n >= 128 {
		dst = append(dst, byte(n%128+128))
		n /= 128
	}
	return append(dst, byte(n))
}

func c07AppendStr(dst []byte, s string, huff bool) []byte {
	if !huff {
		return append(c07AppendInt(dst, 7, 0x00, len(s)), s...)
	}
	h := hpack.AppendHuffmanString(nil, s)
	return append(c07AppendInt(dst, 7, 0x80, len(h)), h...)
}

// enc: 0 literal without indexing, raw strings; 1 literal never indexed,
// Huffman strings; 2 literal with incremental indexing, raw strings.
func c07Encode(fields c07Fields, enc int) []byte {
	var b []byte
	for _, f := range fields {
		switch enc {
		case 0:
			b = append(b, 0x00)
		case 1:
			b = append(b, 0x10)
		case 2:
			b = append(b, 0x40)
		}
		b = c07AppendStr(b, f[0], enc == 1)
		b = c07AppendStr(b, f[1], enc == 1)
	}
	return b
}

type c07Block struct {
	Name   string
	Fields c07Fields // encoded with c07Encode ...
	Raw    []byte    // ... unless explicit HPACK bytes are given
	RawExp c07Fields // what Raw decodes to with an empty dynamic table
	RawOK  bool      // RawExp is meaningful (Raw is decodable without dynamic-table state)
	Dyn    bool      // Raw is the single indexed field 62: decodes to the last field of the preceding block
}

var c07Req = c07Fields{{":method", "GET"}, {":scheme", "https"}, {":authority", "a.b"}, {":path", "/x"}, {"accept", "*"}, {"x-k", "v w"}}

func c07Many() c07Fields {
	var l c07Fields
	for i := 0; i < 8; i++ {
		l = append(l, [2]string{fmt.Sprintf("a%d", i), "b"})
	}
	return l
}

var c07Blocks = []c07Block{
	{Name: "empty"},
	{Name: "request", Fields: c07Req},
	{Name: "response", Fields: c07Fields{{":status", "200"}, {"content-type", "t/x"}}},
	{Name: "extended-connect", Fields: c07Fields{{":method", "CONNECT"}, {":protocol", "websocket"}, {":scheme", "https"}, {":path", "/"}, {":authority", "h"}}},
	{Name: "one-field-42", Fields: c07Fields{{":method", "GET"}}},
	{Name: "dup-pseudo-adjacent", Fields: c07Fields{{":method", "GET"}, {":method", "GET"}}},
	{Name: "dup-pseudo-apart", Fields: c07Fields{{":path", "/a"}, {":scheme", "http"}, {":path", "/b"}}},
	{Name: "dup-pseudo-third", Fields: c07Fields{{":method", "GET"}, {":scheme", "http"}, {":path", "/b"}, {":scheme", "http"}}},
	{Name: "unknown-pseudo", Fields: c07Fields{{":method", "GET"}, {":foo", "bar"}}},
	{Name: "bare-colon", Fields: c07Fields{{":", "x"}}},
	{Name: "request-response-mix", Fields: c07Fields{{":method", "GET"}, {":status", "200"}}},
	{Name: "pseudo-after-regular", Fields: c07Fields{{":method", "GET"}, {"accept", "x"}, {":path", "/"}}},
	{Name: "uppercase-name", Fields: c07Fields{{":method", "GET"}, {"Accept", "x"}}},
	{Name: "empty-name", Fields: c07Fields{{":method", "GET"}, {"", "v"}}},
	{Name: "colon-inside-name", Fields: c07Fields{{"a:b", "v"}}},
	{Name: "space-in-name", Fields: c07Fields{{"a b", "v"}}},
	{Name: "non-ascii-name", Fields: c07Fields{{"caf\xc3\xa9", "v"}, {"x\xff", "v"}}},
	{Name: "value-lf", Fields: c07Fields{{":method", "GET"}, {"x", "a\nb"}}},
	{Name: "value-nul", Fields: c07Fields{{"x", "a\x00"}}},
	{Name: "value-cr", Fields: c07Fields{{"x", "\r"}}},
	{Name: "value-del", Fields: c07Fields{{"x", "a\x7fb"}}},
	{Name: "value-us", Fields: c07Fields{{"x", "a\x1fb"}}},
	{Name: "pseudo-value-lf", Fields: c07Fields{{":path", "/a\nb"}}},
	{Name: "value-valid-specials", Fields: c07Fields{{":status", "200"}, {"x", "a\t b\x80\xff~"}, {"y", ""}}},
	{Name: "long-value", Fields: append(append(c07Fields{}, c07Req...), [2]string{"x-long", strings.Repeat("a", 150)})},
	{Name: "many-small", Fields: c07Many()},
	{Name: "invalid-after-limit", Fields: c07Fields{{":method", "GET"}, {"Accept", "X"}}},
	{Name: "invalid-then-valid", Fields: c07Fields{{"Bad", "v"}, {"ok", "v"}}},
	// explicit HPACK
	{Name: "static-indexed-request", Raw: []byte{0x82, 0x86, 0x84}, RawExp: c07Fields{{":method", "GET"}, {":scheme", "http"}, {":path", "/"}}, RawOK: true},
	{Name: "static-indexed-status", Raw: []byte{0x88}, RawExp: c07Fields{{":status", "200"}}, RawOK: true},
	{Name: "index-0", Raw: []byte{0x80}},
	{Name: "dynamic-62", Raw: []byte{0xbe}, Dyn: true},
	{Name: "size-update-0", Raw: []byte{0x20, 0x82}, RawExp: c07Fields{{":method", "GET"}}, RawOK: true},
	{Name: "size-update-4096", Raw: []byte{0x3f, 0xe1, 0x1f, 0x82}, RawExp: c07Fields{{":method", "GET"}}, RawOK: true},
	{Name: "size-update-4097", Raw: []byte{0x3f, 0xe2, 0x1f, 0x82}},
	{Name: "truncated-literal", Raw: []byte{0x82, 0x00, 0x03, 0x61}},
	{Name: "bad-huffman-padding", Raw: []byte{0x00, 0x81, 0xff, 0x01, 0x61}},
	{Name: "indexed-name-authority", Raw: []byte{0x01, 0x01, 0x68}, RawExp: c07Fields{{":authority", "h"}}, RawOK: true},
	{Name: "indexed-name-accept", Raw: []byte{0x0f, 0x04, 0x01, 0x78}, RawExp: c07Fields{{"accept", "x"}}, RawOK: true},
	{Name: "varint-overflow", Raw: []byte{0xff, 0xff, 0xff, 0xff, 0xff, 0xff, 0xff, 0xff, 0xff, 0xff, 0x7f}},
}

// blocks sent (complete, with incremental indexing) before the block under test
var c07PreBlocks = []c07Fields{
	{{"x-k", "v w"}},
	{{"Bad", "v"}},
	{{"x-k", "a\nb"}},
}

type c07HVariant struct{ F, Pad uint8 }

var c07HVariants = []c07HVariant{{0, 0}, {0x1, 0}, {0x8, 0}, {0x8, 3}, {0x20, 0}, {0x28, 1}}

type c07HCase struct {
	Cfg   c07Cfg `json:"cfg"`
	Pre   int    `json:"pre_block"` // -1 none
	Block int    `json:"block"`
	Enc   int    `json:"encoding"`
	Cuts  []int  `json:"cuts"`     // fragment boundaries; one CONTINUATION per cut
	HVar  int    `json:"headers"`  // index into c07HVariants
	Intr  int    `json:"intruder"` // frame inserted after the first fragment: 0 none, 1 CONTINUATION on another stream, 2 DATA, 3 HEADERS, 4 unknown type
}

func c07HeadersPayload(v c07HVariant, frag []byte) []byte {
	var p []byte
	if v.F&0x8 != 0 {
		p = append(p, v.Pad)
	}
	if v.F&0x20 != 0 {
		p = append(p, 0, 0, 0, 0, 16)
	}
	p = append(p, frag...)
	if v.F&0x8 != 0 {
		p = append(p, make([]byte, v.Pad)...)
	}
	return p
}

// c07BuildH turns a header-block case into a train plus the expected field lists.
func c07BuildH(x c07HCase) ([]c07Frame, map[int]c07Exp) {
	var train []c07Frame
	expect := map[int]c07Exp{}
	if x.Pre >= 0 {
		expect[0] = c07Exp{c07PreBlocks[x.Pre], true}
		train = append(train, c07X(0x1, 0x5, 1, c07Encode(c07PreBlocks[x.Pre], 2)))
	}
	b := c07Blocks[x.Block]
	var block []byte
	var exp c07Exp
	switch {
	case b.Dyn:
		block = b.Raw
		if x.Pre >= 0 {
			p := c07PreBlocks[x.Pre]
			exp = c07Exp{c07Fields{p[len(p)-1]}, true}
		}
	case b.Raw != nil:
		block = b.Raw
		exp = c07Exp{b.RawExp, b.RawOK}
	default:
		block = c07Encode(b.Fields, x.Enc)
		exp = c07Exp{b.Fields, true}
	}
	const sid = 3
	v := c07HVariants[x.HVar]
	prev := 0
	expect[len(train)] = exp
	for i := 0; i <= len(x.Cuts); i++ {
		end := len(block)
		if i < len(x.Cuts) {
			end = x.Cuts[i]
		}
		frag := block[prev:end]
		prev = end
		var fl uint8
		if i == len(x.Cuts) {
			fl = 0x4
		}
		if i == 0 {
			train = append(train, c07X(0x1, v.F|fl, sid, c07HeadersPayload(v, frag)))
			switch x.Intr {
			case 1:
				train = append(train, c07X(0x9, 0x4, sid+2, []byte{0x84}))
			case 2:
				train = append(train, c07X(0x0, 0, sid, []byte("d")))
			case 3:
				train = append(train, c07X(0x1, 0x4, sid, []byte{0x88}))
			case 4:
				train = append(train, c07X(0xb, 0, sid, []byte("u")))
			}
		} else {
			train = append(train, c07X(0x9, fl, sid, frag))
		}
	}
	train = append(train, c07X(0x0, 0x1, sid, []byte("tail")))
	return train, expect
}

type c07Case struct {
	Cfg   c07Cfg     `json:"cfg"`
	Train []c07Frame `json:"train"`
	Cut   int        `json:"cut"` // -1 whole train, else number of bytes of the last frame present
}

type c07Probe struct {
	B     uint8 `json:"byte"`
	Where int   `json:"where"` // 0 name=[b], 1 name="a"+b+"c", 2 value="v"+b+"w", 3 :path="/"+b+"x", 4 name=":"+b
	Enc   int   `json:"encoding"`
}

// c07MinLen is the smallest payload a frame of this type/flags can have
// without being a frame-size/short-payload error (generator knowledge only).
func c07MinLen(t, f uint8) int {
	switch t {
	case 0x0:
		return int(f>>3) & 1
	case 0x1:
		return int(f>>3)&1 + 5*(int(f>>5)&1)
	case 0x2:
		return 5
	case 0x3, 0x8, 0x10:
		return 4
	case 0x5:
		return 4 + int(f>>3)&1
	case 0x6, 0x7:
		return 8
	}
	return 0
}

var c07Types = []uint8{0, 1, 2, 3, 4, 5, 6, 7, 8, 9, 0x10, 0x0b, 0x11, 0xff}

// c07Lasts enumerates the template set for the last frame of a train.
func c07Lasts(cfg c07Cfg, reduced bool) []c07Frame {
	flags := []uint8{0, 1, 2, 4, 8, 0x10, 0x20, 0x40, 0x80, 0x0c, 0x24, 0x28, 0x2c, 0xff}
	streams := []uint32{0, 1, 3, 0x80000000, 0x80000001}
	fills := []uint8{0x00, 0x01, 0x82, 0xff}
	if reduced {
		flags = []uint8{0, 4, 8, 0x20, 0xff}
		streams = []uint32{0, 1, 3}
		fills = []uint8{0x82}
	}
	var out []c07Frame
	for _, t := range c07Types {
		for _, f := range flags {
			m := c07MinLen(t, f)
			lens := []int{m - 1, m, m + 1, m + 2, int(cfg.MaxRead), int(cfg.MaxRead) + 1}
			if t == 0x4 {
				lens = []int{0, 1, 5, 6, 7, 12, int(cfg.MaxRead), int(cfg.MaxRead) + 1}
			}
			seen := map[int]bool{}
			for _, l := range lens {
				if l < 0 || seen[l] {
					continue
				}
				seen[l] = true
				for _, s := range streams {
					for _, fill := range fills {
						if l == 0 && fill != fills[0] {
							continue
						}
						if l > 64 {
							// maximum-size payloads: fills 00 and 01 (reduced set: 01); beyond the maximum the payload is never read
							if reduced {
								fill = 0x01
							} else if fill >= 0x80 || (l > int(cfg.MaxRead) && fill != 0) {
								continue
							}
						}
						out = append(out, c07Frame{T: t, F: f, S: s, L: l, Fill: fill})
					}
				}
			}
			// SETTINGS: initial window size at and above the limit
			if t == 0x4 && !reduced {
				for _, s := range []uint32{0, 1} {
					out = append(out, c07X(t, f, s, []byte{0, 4, 0x7f, 0xff, 0xff, 0xff}), c07X(t, f, s, []byte{0, 4, 0x80, 0, 0, 0}), c07X(t, f, s, []byte{0, 1, 0, 0, 0, 0, 0, 4, 0xff, 0xff, 0xff, 0xff}))
				}
			}
		}
	}
	return out
}

// c07Ctx is the context alphabet: frames that put the reader into each of its
// states (open/closed field block by HEADERS, PUSH_PROMISE or CONTINUATION,
// after a stream error, large/small payload buffer).
func c07Ctx(cfg c07Cfg) []c07Frame {
	return []c07Frame{
		c07X(0x0, 0, 1, []byte("d")),                     // 0 DATA
		{T: 0x0, S: 1, L: int(cfg.MaxRead), Fill: 0x61},  // 1 DATA of maximum size
		c07X(0x1, 0x4, 1, []byte{0x82}),                  // 2 HEADERS END_HEADERS
		c07X(0x1, 0x0, 1, []byte{0x82}),                  // 3 HEADERS, block stays open on stream 1
		c07X(0x1, 0x0, 3, []byte{0x82}),                  // 4 HEADERS, block stays open on stream 3
		c07X(0x9, 0x0, 1, []byte{0x86}),                  // 5 CONTINUATION stream 1, still open
		c07X(0x9, 0x4, 1, []byte{0x84}),                  // 6 CONTINUATION stream 1 END_HEADERS
		c07X(0x9, 0x4, 3, []byte{0x84}),                  // 7 CONTINUATION stream 3 END_HEADERS
		c07X(0x5, 0x4, 1, []byte{0, 0, 0, 2, 0x82}),      // 8 PUSH_PROMISE END_HEADERS
		c07X(0x5, 0x0, 1, []byte{0, 0, 0, 2, 0x82}),      // 9 PUSH_PROMISE, block stays open on stream 1
		c07X(0x8, 0, 1, []byte{0, 0, 0, 0}),              // 10 WINDOW_UPDATE increment 0: stream error
		c07X(0x1, 0x8, 1, []byte{9, 0x82}),               // 11 HEADERS PADDED, pad too long: stream error, block stays open
		c07X(0x4, 0, 0, nil),                             // 12 SETTINGS
		c07X(0x0b, 0, 1, []byte("unk")),                  // 13 unknown type
		c07X(0x6, 0, 0, []byte{1, 2, 3, 4, 5, 6, 7, 8}),  // 14 PING
		c07X(0x1, 0x5, 1, []byte{0x00, 0x01, 0x41, 0x00}), // 15 HEADERS with an invalid field name: stream error in meta mode
	}
}

// configurations of the train/trunc parts (the hpack part crosses MaxHeaderListSize with both read sizes)
func c07Cfgs() []c07Cfg {
	return []c07Cfg{
		{16384, false, 0}, {20, false, 0},
		{16384, true, 0}, {20, true, 40}, {16384, true, 100},
	}
}

func TestVerif_C07(t *testing.T) {
	vx.Run(t, "C07", func(c *vx.Ctx) {
		c.Rule("part train: a case is (reader configuration, k context frames, one last frame). configurations: (max read size, mode) in {(16384,plain),(20,plain),(16384,ReadMetaHeaders default list size),(20,meta,40),(16384,meta,100)}. context alphabet: 16 frames that drive the reader through its states (field block left open / closed by HEADERS, PUSH_PROMISE, CONTINUATION on streams 1 and 3, stream-error frames, max-size and tiny payloads, SETTINGS, PING, unknown type). last frame: type in {0..10, 0x10, unknown 0x0b/0x11/0xff} x flags {0, each single bit, 0x0c,0x24,0x28,0x2c, 0xff} x stream field {0,1,3, reserved-bit+0, reserved-bit+1} x length {min-1,min,min+1,min+2,max,max+1} (min = smallest legal payload for type/flags, max = max read size) x fill byte {00,01,82,ff} (+ SETTINGS window-size boundaries). context prefixes in which the reference itself finds a violation are skipped (that frame is judged as the last frame of the shorter train). quick: k=0 with the full last set, k=1,2 with a reduced last set (5 flag bytes, 3 stream fields, one fill); thorough: k<=2 full, k=3 reduced. part trunc: k<=1 (quick: no context, open HEADERS block, open PUSH_PROMISE block), reduced last set, last frame cut at every byte offset (for payloads > 48 bytes: the first 57 and last 2 offsets). part hpack: HEADERS(+CONTINUATION) trains carrying each of a fixed set of header blocks (valid request/response, duplicate/unknown/misplaced pseudo fields, invalid names and values, oversized lists, static/dynamic indexing, size updates, malformed HPACK) in 3 encodings, split at every byte offset (thorough: every pair of offsets), x MaxHeaderListSize {default,40,42,100} x max read size x HEADERS padding/priority variants x an interleaved foreign frame x a preceding block that seeds the dynamic table. part bytes: every byte value 0..255 in a field name (alone, in the middle), in a value, in a pseudo value and after ':' . non-trivial = the reader reached the last frame of the train")
		c.Assume("byte streams that are not sequences of frame headers + payloads are not generated separately: any byte string parses as such a sequence; coverage of payload contents is limited to the listed fills and blocks")
		c.Assume("field values are judged per byte (VCHAR / obs-text / SP / HTAB); leading or trailing whitespace in a value (RFC 9113 §8.2.1) is not in the alphabet")
		c.Assume("request/response pseudo-header mixing is in the input set but not an oracle clause (the property names order, duplicates, unknown names, validity and size only)")
		c.Assume("after the first frame that the reference classifies as a violation, or the first connection-level error, the rest of the train is not judged (a connection error ends the connection)")
		c.Assume("when a MetaHeadersFrame is returned with nil error, Fields must be the field list the harness encoded (a prefix when Truncated): this is the documented meaning of Fields/Truncated and guards the size clause against vacuity")

		runCase := func(w *vx.W, x c07Case) {
			if c07Run(w, x.Cfg, x.Train, x.Cut, nil) && !w.Failed() {
				w.Nontrivial()
			}
		}

		// ---------------------------------------------------------- header blocks through ReadMetaHeaders
		hcfgs := []c07Cfg{}
		for _, mr := range []uint32{16384, 20} {
			for _, hl := range []uint32{0, 40, 42, 100} {
				hcfgs = append(hcfgs, c07Cfg{mr, true, hl})
			}
		}
		vx.Enumerate(c, "hpack", vx.Opts{}, func(yield func(c07HCase) bool) {
			for bi, b := range c07Blocks {
				encs := []int{0, 1, 2}
				if b.Raw != nil {
					encs = []int{0}
				}
				for _, enc := range encs {
					n := len(b.Raw)
					if b.Raw == nil {
						n = len(c07Encode(b.Fields, enc))
					}
					var cutsets [][]int
					cutsets = append(cutsets, nil)
					for i := 0; i <= n; i++ {
						cutsets = append(cutsets, []int{i})
					}
					if !c.Quick() {
						for i := 0; i <= n; i++ {
							for j := i; j <= n; j++ {
								if n > 40 && (j-i)%8 != 0 && i%8 != 0 {
									continue // long blocks: pairs on a grid, every single cut is still covered
								}
								cutsets = append(cutsets, []int{i, j})
							}
						}
					}
					for _, cfg := range hcfgs {
						for _, cuts := range cutsets {
							for hv := range c07HVariants {
								for intr := 0; intr <= 4; intr++ {
									if intr != 0 && (len(cuts) == 0 || hv != 0) {
										continue
									}
									for pre := -1; pre < len(c07PreBlocks); pre++ {
										if pre >= 0 && (intr != 0 || (hv != 0 && !b.Dyn) || (len(cuts) > 1)) {
											continue
										}
										if !yield(c07HCase{cfg, pre, bi, enc, cuts, hv, intr}) {
											return
										}
									}
								}
							}
						}
					}
				}
			}
		}, func(w *vx.W, x c07HCase) {
			train, expect := c07BuildH(x)
			if c07Run(w, x.Cfg, train, -1, expect) && !w.Failed() {
				w.Nontrivial()
			}
		})

		// ---------------------------------------------------------- every byte value in names and values
		vx.Enumerate(c, "bytes", vx.Opts{}, func(yield func(c07Probe) bool) {
			for where := 0; where <= 4; where++ {
				for enc := 0; enc <= 2; enc++ {
					for b := 0; b < 256; b++ {
						if !yield(c07Probe{uint8(b), where, enc}) {
							return
						}
					}
				}
			}
		}, func(w *vx.W, x c07Probe) {
			bs := string([]byte{x.B})
			var fields c07Fields
			switch x.Where {
			case 0:
				fields = c07Fields{{":method", "GET"}, {bs, "v"}}
			case 1:
				fields = c07Fields{{":method", "GET"}, {"a" + bs + "c", "v"}}
			case 2:
				fields = c07Fields{{":method", "GET"}, {"x", "v" + bs + "w"}}
			case 3:
				fields = c07Fields{{":path", "/" + bs + "x"}, {"x", "y"}}
			case 4:
				fields = c07Fields{{":" + bs, "v"}}
			}
			cfg := c07Cfg{16384, true, 0}
			train := []c07Frame{c07X(0x1, 0x5, 1, c07Encode(fields, x.Enc)), c07X(0x6, 0, 0, []byte("pingpong"))}
			if c07Run(w, cfg, train, -1, map[int]c07Exp{0: {fields, true}}) && !w.Failed() {
				w.Nontrivial()
			}
		})
		// ---------------------------------------------------------- structured trains
		fullDepth := vx.Pick(c, 0, 2)
		maxDepth := vx.Pick(c, 2, 3)
		vx.Enumerate(c, "train", vx.Opts{}, func(yield func(c07Case) bool) {
			for depth := 0; depth <= maxDepth; depth++ {
				for _, cfg := range c07Cfgs() {
					ctx := c07Ctx(cfg)
					lasts := c07Lasts(cfg, depth > fullDepth)
					idx := make([]int, len(ctx))
					for i := range idx {
						idx[i] = i
					}
					ok := vx.Strings(idx, depth, depth, func(pre []int) bool {
						// a context frame that the reference itself classifies as a violation ends the
						// connection: the same frame is judged as the last frame of the shorter train
						var r c07Ref
						for _, i := range pre {
							if r.verdict(ctx[i], cfg.MaxRead) != "" {
								return true
							}
							r.advance(ctx[i])
						}
						for _, l := range lasts {
							tr := make([]c07Frame, 0, depth+1)
							for _, i := range pre {
								tr = append(tr, ctx[i])
							}
							tr = append(tr, l)
							if !yield(c07Case{cfg, tr, -1}) {
								return false
							}
						}
						return true
					})
					if !ok {
						return
					}
				}
			}
		}, runCase)

		// ---------------------------------------------------------- truncation at every offset
		vx.Enumerate(c, "trunc", vx.Opts{}, func(yield func(c07Case) bool) {
			for _, cfg := range c07Cfgs() {
				ctx := c07Ctx(cfg)
				pres := [][]c07Frame{nil}
				for i, f := range ctx {
					if c.Quick() && i != 3 && i != 9 {
						continue
					}
					pres = append(pres, []c07Frame{f})
				}
				for _, pre := range pres {
					for _, l := range c07Lasts(cfg, true) {
						total := 9 + l.L
						for cut := 0; cut < total; cut++ {
							if cut > 56 && cut < total-2 {
								continue
							}
							tr := append(append(make([]c07Frame, 0, 2), pre...), l)
							if !yield(c07Case{cfg, tr, cut}) {
								return
							}
						}
					}
				}
			}
		}, runCase)

	})
}
