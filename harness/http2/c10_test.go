//go:build !(go1.27 && !http2legacy)

package http2_test

// C10 — HTTP/2 inbound flow-control credit is never leaked (server and
// client). One check, two parts: the server part runs on the h2srv harness
// (c10srv_test.go), the client part on the h2cli harness (c10cli_test.go).

import (
	"testing"

	. "golang.org/x/net/http2"
	"golang.org/x/net/internal/zzverif/vx"
)

func c10srvParts(c *vx.Ctx) []c10srvPart {
	small := c08srvCfg{Sched: "9218", StrWin: 8}
	large := c08srvCfg{Sched: "9218"}
	// (payload length, padding, END_STREAM)
	dSmallQ := [][3]int64{{1, 0, 0}, {4, 0, 0}, {0, 3, 0}, {4, 3, 0}, {4, 0, 1}, {0, 0, 1}}
	dSmallT := [][3]int64{{0, 0, 0}, {1, 0, 0}, {4, 0, 0}, {8, 0, 0}, {0, 3, 0}, {1, 3, 0}, {4, 3, 0}, {4, 0, 1}, {0, 0, 1}, {1, 3, 1}}
	dLargeQ := [][3]int64{{4, 0, 0}, {9, 0, 0}, {16384, 0, 0}, {4, 3, 0}, {9, 0, 1}}
	dLargeT := [][3]int64{{0, 0, 0}, {4, 0, 0}, {9, 0, 0}, {16384, 0, 0}, {4, 3, 0}, {16384, 3, 0}, {9, 0, 1}, {0, 0, 1}}
	hdl := []string{"C", "DONE", "P", "RST", "T", "G"}
	hdlT := []string{"C", "DONE", "P", "RST", "T", "G", "GS"}
	seedOpen := []string{"H(-1)", "D(1,4,0,0)"}                     // one stream, 4 unread bytes buffered
	seedTwo := []string{"H(-1)", "H(4)", "D(1,4,0,0)", "D(3,4,0,0)"} // two streams with buffered data, one with content-length reached
	seedGS := []string{"H(-1)", "GS", "H(-1)"}                      // graceful GOAWAY, then a stream the server ignores
	seedBig := []string{"H(-1)", "D(1,16384,0,0)", "D(1,16384,0,0)", "R(1,20000)"}
	// The client stops reading (BLK): the first frame the server produces
	// afterwards (a PING ack, a WINDOW_UPDATE, a RST_STREAM) leaves its writer
	// stuck in a flush, later frames queue, and streams the server resets or
	// finishes stay in its table until the client reads again (UNB, implied at
	// the end of a case).
	blk := []string{"PING", "UNB", "BLK"}
	seedTwoBlk := append(append([]string(nil), seedTwo...), "BLK")
	seedCLBlk := []string{"H(4)", "BLK"} // one stream with a declared content-length, nothing sent yet
	// The application's ConnState callback is slow (HOLD): closeStream of the
	// last stream calls it on the serve goroutine after marking the stream
	// closed and before refunding what is still buffered; handler Reads made
	// meanwhile are reported to the serve loop only after the callback
	// returned (REL, implied at the end of a case), for a closed stream.
	hook := []string{"REL", "HOLD"}
	seedOpenHold := append(append([]string(nil), seedOpen...), "HOLD")
	seedCLHold := []string{"H(4)", "D(1,4,0,0)", "HOLD"} // content-length reached: one more byte makes the server reset the stream
	seedTwoHold := append(append([]string(nil), seedTwo...), "HOLD")
	seedBigHold := []string{"H(-1)", "D(1,16384,0,0)", "HOLD"}
	if c.Quick() {
		return []c10srvPart{
			{"srv/win8/buffered/slow-connstate-callback", small, seedOpenHold, c10srvAlphabet(nil, dSmallQ, []int64{1, 100}, append(append([]string(nil), hdl...), hook...), nil), 3},
			{"srv/win8/content-length-reached/slow-connstate-callback", small, seedCLHold, c10srvAlphabet(nil, dSmallQ, []int64{1, 100}, append(append([]string(nil), hdl...), hook...), nil), 3},
			{"srv/default/big-frame/slow-connstate-callback", large, seedBigHold, c10srvAlphabet(nil, dLargeQ, []int64{100, 20000}, []string{"C", "DONE", "RST", "REL"}, nil), 3},
			{"srv/default/two-buffered/client-not-reading", large, seedTwoBlk, c10srvAlphabet(nil, dLargeQ, []int64{1, 100}, append(append([]string(nil), hdl...), blk...), nil), 3},
			{"srv/win8/content-length/client-not-reading", small, seedCLBlk, c10srvAlphabet([]int64{-1}, dSmallQ, []int64{1, 100}, append(append([]string(nil), hdl...), blk...), nil), 4},
			{"srv/win8/empty", small, nil, c10srvAlphabet([]int64{-1, 4}, dSmallQ, []int64{1, 100}, hdl, nil), 4},
			{"srv/win8/buffered", small, seedOpen, c10srvAlphabet([]int64{4}, dSmallQ, []int64{1, 100}, hdl, nil), 3},
			{"srv/default/two-buffered", large, seedTwo, c10srvAlphabet(nil, dLargeQ, []int64{1, 100}, hdl, nil), 3},
			{"srv/default/after-graceful-goaway", large, seedGS, c10srvAlphabet(nil, dLargeQ, []int64{100}, []string{"DONE", "RST"}, nil), 3},
			{"srv/default/big-frames", large, seedBig, c10srvAlphabet([]int64{-1}, dLargeQ, []int64{100, 20000}, []string{"C", "DONE", "RST"}, nil), 3},
		}
	}
	return []c10srvPart{
		{"srv/win8/buffered/slow-connstate-callback", small, seedOpenHold, c10srvAlphabet([]int64{4}, dSmallT, []int64{1, 100}, append(append([]string(nil), hdlT...), hook...), nil), 4},
		{"srv/win8/content-length-reached/slow-connstate-callback", small, seedCLHold, c10srvAlphabet([]int64{-1}, dSmallT, []int64{1, 100}, append(append([]string(nil), hdlT...), hook...), nil), 4},
		{"srv/default/two-buffered/slow-connstate-callback", large, seedTwoHold, c10srvAlphabet(nil, dLargeQ, []int64{1, 100}, append(append([]string(nil), hdl...), hook...), nil), 4},
		{"srv/default/big-frame/slow-connstate-callback", large, seedBigHold, c10srvAlphabet([]int64{-1}, dLargeT, []int64{100, 20000}, append(append([]string(nil), hdlT...), hook...), nil), 4},
		{"srv/default/two-buffered/client-not-reading", large, seedTwoBlk, c10srvAlphabet(nil, dLargeT, []int64{1, 100}, append(append([]string(nil), hdlT...), blk...), nil), 4},
		{"srv/win8/content-length/client-not-reading", small, seedCLBlk, c10srvAlphabet([]int64{-1}, dSmallT, []int64{1, 100}, append(append([]string(nil), hdlT...), blk...), nil), 5},
		{"srv/win8/empty", small, nil, c10srvAlphabet([]int64{-1, 4, 10}, dSmallT, []int64{1, 100}, hdlT, nil), 5},
		{"srv/win8/buffered", small, seedOpen, c10srvAlphabet([]int64{4}, dSmallT, []int64{1, 100}, hdlT, nil), 4},
		{"srv/default/empty", large, nil, c10srvAlphabet([]int64{-1, 4, 10}, dLargeT, []int64{1, 100, 20000}, hdlT, nil), 4},
		{"srv/default/two-buffered", large, seedTwo, c10srvAlphabet(nil, dLargeT, []int64{1, 100}, hdlT, nil), 4},
		{"srv/default/after-graceful-goaway", large, seedGS, c10srvAlphabet(nil, dLargeT, []int64{100}, []string{"C", "DONE", "RST", "T"}, nil), 4},
		{"srv/default/big-frames", large, seedBig, c10srvAlphabet([]int64{-1}, dLargeT, []int64{100, 20000}, hdlT, nil), 4},
		{"srv/rr/win8/empty", c08srvCfg{Sched: "rr", StrWin: 8}, nil, c10srvAlphabet([]int64{-1, 4}, dSmallQ, []int64{1, 100}, hdl, nil), 4},
	}
}

func TestVerif_C10(t *testing.T) {
	DisableGoroutineTracking(t) // debug-only goroutine-ownership assertions (stack parsing); no behavioural effect
	vx.Run(t, "C10", func(c *vx.Ctx) {
		c.Rule("EV, server part: for each part (configured stream window 8 or default x seed prefix) every event sequence of depth 1..D after the seed over {H(content-length none|4|10) (<=2 POST streams), DATA(stream, len, padding, END_STREAM) inside the client's view of both windows (also on finished/reset/ignored streams), handler Read(n), Body.Close, handler return, handler panic, client RST_STREAM, client trailers, a connection error provoking GOAWAY, graceful GOAWAY, and in the */client-not-reading parts BLK (the client stops reading: receive buffer 0, every server write blocks, the frames it produces afterwards queue behind the stuck one and streams it resets or finishes stay in its table), PING (its ack is one such stuck write) and UNB (the client reads again and drains the connection; implied at the end of every case that is still blocked), and in the */slow-connstate-callback parts HOLD (the application's net/http ConnState callback, which the server calls on its serve goroutine, will not return from its next StateIdle call: closeStream of the last stream in the table - after a client RST_STREAM, a server reset, the end of the response - stays suspended after marking the stream closed and before refunding the buffered bytes; meanwhile only the handler of that stream acts (Read, Body.Close): the bytes a Read takes are reported to the serve loop for an already closed stream) and REL (the callback returns; implied at the end of every case that is still suspended)}, pruned by a predictive model and decided on the real state at run time; each sequence runs on a fresh real http2.Server in its own synctest bubble; after every event at quiescence: white-box sc.inflow.avail+unsent+sum(unread buffered) == configured connection window, the same per open stream, advertised window == wire view, every WINDOW_UPDATE keeps the client's view <= configured and <= 2^31-1, and with no open streams the client's view is within inflowMinRefresh of the configured window; while closeStream is suspended nothing is evaluated (no quiescent point; the clauses are evaluated after REL); between BLK and UNB only the white-box equations are evaluated, the clauses about the client's view are evaluated after UNB once everything queued has been written and read. non-trivial = at least one DATA frame was sent")
		c.Assume("credit below inflowMinRefresh (4096) that the implementation deliberately batches in inflow.unsent counts as returned (it is sent with the next refresh); a one-byte leak still breaks the white-box equation")
		c.Assume("DATA beyond the advertised windows is C11's domain and is not sent in C10 cases")
		c.Assume("server part: when DATA with payload and END_STREAM arrives after the handler closed the request body the server drops that frame's END_STREAM flag (processData returns early); client and server then disagree about the stream state, so no further DATA is sent on such a stream")
		c.Assume("server part: PING is enumerated only while the client is not reading and once per such period (otherwise its ack is written and read at once and no flow-control state depends on it); a blocked server write is modelled by a peer receive buffer of 0 bytes, so either nothing or everything the server has queued is on the wire")
		c.Assume("server part: a handler Read that is in flight while the serve loop closes its stream is produced only by the serve loop being held inside the application's ConnState(StateIdle) callback (last stream of the connection); while it is held only the handler of the stream being closed acts, so that after REL the loop has a single kind of input pending. The same overlap decided by the serve loop's select between a pending frame and a pending body-read report, or by goroutine scheduling, is below event granularity and not explored")
		c.Assume("interleavings are explored at event granularity (L2)")
		c.Rule("states = explored event histories (stateless search), transitions = events applied to the real endpoint and checked at quiescence, traces = histories executed to their end")
		c08Determinism(c, func(w *vx.W, t testing.TB) ([]string, string) {
			res, herr := c10srvRunCase(w, t, c08srvCase{Cfg: c08srvCfg{Sched: "9218", StrWin: 8}, Evs: []string{"H(-1)", "H(4)", "D(1,4,3,0)", "R(1,100)", "D(3,4,0,1)", "C(1)", "D(1,1,0,0)", "DONE(3)", "RST(1)"}}, c10sMode{id: "C10", leak: true})
			return res.trace, herr
		})
		c10srvRunParts(c, c10sMode{id: "C10", leak: true}, c10srvParts(c))
		c10cliRunParts(c)
	})
}
