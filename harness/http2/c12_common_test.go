// Shared machinery of the write-scheduler checks C12 and C13: the operation
// alphabet, the contract (which histories a caller may produce), the driver of
// the real scheduler and the FIFO reference model that *follows* the
// implementation's choice on every Pop and checks that it is an allowed one.

//go:build !(go1.27 && !http2legacy)

package http2

import (
	"bytes"
	"fmt"
	"math"
	"runtime"
	"runtime/debug"
	"strings"
	"sync"

	"golang.org/x/net/internal/zzverif/vx"
)

type c12Kind uint8

const (
	c12Open c12Kind = iota
	c12Close
	c12Adjust
	c12Headers
	c12Data
	c12RST
	c12Ctl
	c12Win
	c12Pop
)

var c12KindNames = []string{"open", "close", "adjust", "headers", "data", "rst", "ctl", "win", "pop"}

func (k c12Kind) String() string { return c12KindNames[k] }

func (k c12Kind) MarshalText() ([]byte, error) { return []byte(c12KindNames[k]), nil }

func (k *c12Kind) UnmarshalText(b []byte) error {
	for i, n := range c12KindNames {
		if n == string(b) {
			*k = c12Kind(i)
			return nil
		}
	}
	return fmt.Errorf("unknown op kind %q", b)
}

// c12Prio carries both priority schemes; each scheduler reads its own half.
type c12Prio struct {
	Dep  uint32 `json:"dep,omitempty"`  // RFC 7540 stream dependency
	Excl bool   `json:"excl,omitempty"` // RFC 7540 exclusive flag
	W    uint8  `json:"w,omitempty"`    // RFC 7540 weight-1
	U    uint8  `json:"u,omitempty"`    // RFC 9218 urgency
	I    bool   `json:"i,omitempty"`    // RFC 9218 incremental
}

func (p c12Prio) param() PriorityParam {
	pp := PriorityParam{StreamDep: p.Dep, Exclusive: p.Excl, Weight: p.W, urgency: p.U}
	if p.I {
		pp.incremental = 1
	}
	return pp
}

// c12Op is one operation of a history.
type c12Op struct {
	K   c12Kind `json:"k"`
	S   uint32  `json:"s,omitempty"`   // stream id (0 = connection for win)
	N   int32   `json:"n,omitempty"`   // data: length; win: window delta
	End bool    `json:"end,omitempty"` // data: END_STREAM
	P   c12Prio `json:"p,omitzero"`    // open / adjust
}

func (o c12Op) String() string {
	switch o.K {
	case c12Open, c12Adjust:
		return fmt.Sprintf("%v(%d,dep=%d,excl=%v,w=%d,u=%d,i=%v)", o.K, o.S, o.P.Dep, o.P.Excl, o.P.W, o.P.U, o.P.I)
	case c12Data:
		return fmt.Sprintf("data(%d,len=%d,end=%v)", o.S, o.N, o.End)
	case c12Win:
		return fmt.Sprintf("win(%d,%+d)", o.S, o.N)
	case c12Ctl, c12Pop:
		return o.K.String()
	}
	return fmt.Sprintf("%v(%d)", o.K, o.S)
}

// c12Env fixes the flow-control environment of a history.
type c12Env struct {
	Name      string
	MaxFrame  int32 // sc.maxFrameSize
	ConnWin   int32 // initial connection send window
	StreamWin int32 // initial send window of every opened stream
}

// c12Contract tracks what the WriteScheduler contract allows next. It is the
// only thing the generators need and is independent of any scheduler.
type c12Contract struct {
	st      [16]uint8 // per stream id: 0 idle, 1 open, 2 closed
	canOpen []uint32  // ids that may be opened, ascending; opened in this order
}

func (ct *c12Contract) enabled(op c12Op) bool {
	switch op.K {
	case c12Open:
		if ct.st[op.S] != 0 {
			return false // ids are never reused (HTTP/2); re-opening is outside the contract
		}
		for _, id := range ct.canOpen {
			if id == op.S {
				return true
			}
			if ct.st[id] == 0 {
				return false // client stream ids are opened in ascending order
			}
		}
		return false
	case c12Close, c12Headers, c12Data:
		return ct.st[op.S] == 1
	case c12Win:
		return op.S == 0 || ct.st[op.S] == 1
	case c12Adjust:
		return op.S != 0 && op.P.Dep != op.S // the server rejects self-dependency before the scheduler sees it
	}
	return true
}

func (ct *c12Contract) apply(op c12Op) {
	switch op.K {
	case c12Open:
		ct.st[op.S] = 1
	case c12Close:
		ct.st[op.S] = 2
	}
}

// c12GenSeqs yields every contract-respecting history seed·x with |x| = n over
// ops, in lexicographic order of alphabet indices.
func c12GenSeqs(canOpen []uint32, seed []c12Op, ops []c12Op, n int, yield func([]c12Op) bool) bool {
	base := c12Contract{canOpen: canOpen}
	for _, op := range seed {
		if !base.enabled(op) {
			panic(fmt.Sprintf("c12: seed op %v violates the contract", op))
		}
		base.apply(op)
	}
	buf := append([]c12Op(nil), seed...)
	var rec func(ct c12Contract, left int) bool
	rec = func(ct c12Contract, left int) bool {
		if left == 0 {
			return yield(append([]c12Op(nil), buf...))
		}
		for _, op := range ops {
			if !ct.enabled(op) {
				continue
			}
			nct := ct
			nct.apply(op)
			buf = append(buf, op)
			ok := rec(nct, left-1)
			buf = buf[:len(buf)-1]
			if !ok {
				return false
			}
		}
		return true
	}
	return rec(base, n)
}

// c12Ballast makes garbage-collection cycles rare: the histories allocate many
// short-lived small objects while the live heap is a few MB, so without it the
// runtime spends most of its time starting GC cycles and re-initialising spans.
// The ballast is never touched (not resident).
func c12Ballast() func() {
	b := make([]byte, 32<<20)
	return func() { runtime.KeepAlive(b) }
}

// ---------------------------------------------------------------------------
// real scheduler + reference model

func c12NewSched(name string) WriteScheduler {
	switch name {
	case "random":
		return NewRandomWriteScheduler()
	case "roundrobin":
		return newRoundRobinWriteScheduler()
	case "rfc9218":
		return newPriorityWriteSchedulerRFC9218()
	case "rfc7540":
		return NewPriorityWriteScheduler(nil)
	case "rfc7540-retain0":
		return NewPriorityWriteScheduler(&PriorityWriteSchedulerConfig{})
	case "rfc7540-retain1":
		return NewPriorityWriteScheduler(&PriorityWriteSchedulerConfig{MaxClosedNodesInTree: 1, MaxIdleNodesInTree: 1})
	case "rfc7540-throttle":
		return NewPriorityWriteScheduler(&PriorityWriteSchedulerConfig{MaxClosedNodesInTree: 10, MaxIdleNodesInTree: 10, ThrottleOutOfOrderWrites: true})
	}
	panic("c12: unknown scheduler " + name)
}

// c12Family names the implementation (one signature space per implementation,
// not per configuration).
func c12Family(name string) string {
	if i := strings.IndexByte(name, '-'); i > 0 {
		return name[:i]
	}
	return name
}

type c12Frame struct {
	kind  c12Kind // c12Headers, c12Data, c12RST, c12Ctl
	sid   uint32
	seq   int
	write writeFramer
	done  chan error
	data  []byte // DATA payload as pushed
	off   int    // bytes of data already delivered
	end   bool   // END_STREAM as pushed
}

type c12Stream struct {
	id    uint32
	used  bool
	state uint8 // 0 idle, 1 open, 2 closed
	real  *stream
	win   int32       // model of the stream send window
	q     []*c12Frame // model: frames pushed and neither delivered nor dropped, in push order
	prio  c12Prio     // priority the scheduler was told (C13)
	// counters for the conservation summary
	pushed, delivered, dropped int
}

const c12MaxID = 7

// c12World is a real scheduler with its streams and flow-control windows plus
// the reference model. Worlds are recycled through c12WorldPool to keep the
// allocation rate low; everything a history can observe is reset in
// c12NewWorld, and the scheduler under test is always fresh.
type c12World struct {
	id      string // "C12" or "C13": prefix of signatures
	sched   string
	fam     string
	env     c12Env
	ws      WriteScheduler
	sc      *serverConn
	streams [c12MaxID + 1]c12Stream // index = stream id
	ctl     []*c12Frame             // model: control-class frames (stream == nil) queued, push order
	conn    int32                   // model of the connection send window
	seq     int
	pops    int  // successful pops
	dropAt  bool // some CloseStream discarded queued frames
	quiet   bool // do not report C12-oracle divergences (used by C13), only stop
	failed  bool

	// recycled storage
	scStore serverConn
	reals   [c12MaxID + 1]stream
	slab    []*c12Slot
	nslot   int
}

// c12Slot is the storage of one pushed frame.
type c12Slot struct {
	f    c12Frame
	done chan error
	wh   writeResHeaders
	wd   writeData
	buf  []byte
}

var c12WorldPool = sync.Pool{New: func() any { return new(c12World) }}

func c12NewWorld(id, sched string, env c12Env) *c12World {
	w := c12WorldPool.Get().(*c12World)
	w.id, w.sched, w.fam, w.env = id, sched, c12Family(sched), env
	w.ws = c12NewSched(sched)
	w.scStore = serverConn{maxFrameSize: env.MaxFrame}
	w.sc = &w.scStore
	w.sc.flow.add(env.ConnWin)
	for i := range w.streams {
		q := w.streams[i].q
		clear(q[:cap(q)])
		w.streams[i] = c12Stream{id: uint32(i), q: q[:0]}
	}
	clear(w.ctl[:cap(w.ctl)])
	w.ctl = w.ctl[:0]
	w.conn = env.ConnWin
	w.seq, w.pops, w.dropAt, w.quiet, w.failed, w.nslot = 0, 0, false, false, false, 0
	return w
}

// release returns w to the pool; w must not be used afterwards.
func (w *c12World) release() {
	w.ws = nil
	c12WorldPool.Put(w)
}

func (w *c12World) stream(id uint32) *c12Stream {
	s := &w.streams[id]
	s.used = true
	return s
}

// slot returns fresh storage for one frame.
func (w *c12World) slot() *c12Slot {
	if w.nslot == len(w.slab) {
		w.slab = append(w.slab, &c12Slot{done: make(chan error, 1)})
	}
	sl := w.slab[w.nslot]
	w.nslot++
	sl.f = c12Frame{}
	return sl
}

func (w *c12World) failf(vw *vx.W, clause, format string, a ...any) {
	w.failed = true
	if w.quiet {
		vw.Outcome("c12-divergence-pruned")
		return
	}
	what := fmt.Sprintf("[%s, env %s] "+format, append([]any{w.sched, w.env.Name}, a...)...)
	if d := w.diagnose(); d != "" {
		// One structural defect shows as several symptoms (a panic in Push or
		// CloseStream, a Pop that reports nothing); name the abstract trigger
		// once and keep the symptom in the text.
		what = "symptom " + clause + ": " + what
		clause = d
	}
	vw.Fail(w.id+"/"+w.fam+"/"+clause, what)
}

// diagnose inspects the RFC 7540 scheduler after a black-box divergence and
// names the abstract situation if it is a recognisable structural one: a
// stream that is open under the contract has no node in the priority tree.
func (w *c12World) diagnose() string {
	if ws, ok := w.ws.(*priorityWriteSchedulerRFC9218); ok {
		return w.diagnose9218(ws)
	}
	ws, ok := w.ws.(*priorityWriteSchedulerRFC7540)
	if !ok {
		return ""
	}
	for id := range w.streams {
		if s := &w.streams[id]; s.state == 1 && ws.nodes[uint32(id)] == nil {
			return "open-stream-missing-from-priority-tree"
		}
	}
	return ""
}

// diagnose9218 does the same for the RFC 9218 scheduler: a stream that is open
// under the contract has no queue, or its queue is in no ring that Pop can
// reach from the (urgency, incremental) head table.
func (w *c12World) diagnose9218(ws *priorityWriteSchedulerRFC9218) string {
	for id := range w.streams {
		if w.streams[id].state != 1 {
			continue
		}
		loc := ws.streams[uint32(id)].location
		if loc == nil {
			return "open-stream-missing-from-stream-table"
		}
		linked := false
		for u := range ws.heads {
			for i := range ws.heads[u] {
				q := ws.heads[u][i]
				for n := 0; q != nil && n < 2*c12MaxID; n++ { // bounded: a damaged ring need not close
					if q == loc {
						linked = true
					}
					if q = q.next; q == ws.heads[u][i] {
						break
					}
				}
			}
		}
		if !linked {
			return "open-stream-unreachable-from-priority-rings"
		}
	}
	return ""
}

// popWouldHang9218 reports whether the next Pop of the RFC 9218 scheduler is
// certain to loop forever: Pop walks each (urgency, incremental) ring from its
// head until it is back at the head, and returns early only at a queue it can
// consume from. If no control frame is queued, every ring Pop visits before
// (urgency ascending, within one urgency in the order servedIncrementalLast
// selects) is closed and holds only empty queues, and the walk from some head runs through
// empty queues only without ever coming back to that head (the head is a queue
// that was unlinked from the ring it points into), Pop cannot return. Anything
// less certain is left to the real Pop (and the engine's watchdog).
func (w *c12World) popWouldHang9218() bool {
	ws, ok := w.ws.(*priorityWriteSchedulerRFC9218)
	if !ok || !ws.control.empty() {
		return false
	}
	for u := range ws.heads {
		for i := range ws.heads[u] {
			if !ws.servedIncrementalLast[u] {
				i = (i + 1) % 2 // Pop's own visiting order within one urgency
			}
			head := ws.heads[u][i]
			if head == nil {
				continue
			}
			q, closed := head, false
			for n := 0; n < 4*c12MaxID; n++ { // more steps than queues exist: past that the walk is in a cycle without head
				if q == nil {
					return false // Pop would panic, not hang
				}
				if !q.empty() {
					return false // Pop may return here
				}
				if q = q.next; q == head {
					closed = true
					break
				}
			}
			if !closed {
				return true
			}
		}
	}
	return false
}

// c12PanicSite extracts the first repository frame below a panic.
func c12PanicSite(st string) string {
	lines := strings.Split(st, "\n")
	for i := 0; i+1 < len(lines); i++ {
		l := lines[i]
		if j := strings.LastIndex(l, "("); j > 0 {
			l = l[:j] // drop the argument list (hex words)
		}
		if strings.HasPrefix(l, "golang.org/x/net/http2.") && !strings.Contains(lines[i+1], "zz_verif_") &&
			!strings.Contains(lines[i+1], "/verif/harness/") && !strings.Contains(l, "c12") && !strings.Contains(l, "c13") {
			return strings.TrimPrefix(l, "golang.org/x/net/http2.")
		}
	}
	return ""
}

// c12Recovered turns a panic below a scheduler call into a divergence; a panic
// with no repository frame on the stack is a harness bug and is re-raised.
func (w *c12World) recovered(vw *vx.W, r any, op string) {
	st := string(debug.Stack())
	site := c12PanicSite(st)
	if site == "" {
		panic(fmt.Sprintf("c12 harness bug: %v\n%s", r, st))
	}
	w.failf(vw, "panic/"+op+":"+site, "scheduler panicked in %s: %v", op, r)
}

func c12DataByte(seq, i int) byte { return byte(seq*37 + i*11 + (i>>8)*5 + 1) }

// c12PopInfo describes one Pop for the priority-aware monitors of C13.
type c12PopInfo struct {
	OK     bool
	Ctl    bool   // a control-class frame (stream == nil)
	SID    uint32 // stream of a stream frame
	Bytes  int
	Whole  bool // the frame left the queue (not a partial DATA piece)
	Queued int  // frames still queued on that stream afterwards
}

// apply performs op on the real scheduler and the model. It returns false when
// the history must stop (a divergence was reported).
func (w *c12World) apply(vw *vx.W, op c12Op) (info c12PopInfo, cont bool) {
	defer func() {
		if r := recover(); r != nil {
			w.recovered(vw, r, op.K.String())
			cont = false
		}
	}()
	switch op.K {
	case c12Open:
		s := w.stream(op.S)
		w.reals[op.S] = stream{id: op.S, sc: w.sc}
		s.real = &w.reals[op.S]
		s.real.flow.conn = &w.sc.flow
		s.real.flow.add(w.env.StreamWin)
		s.win = w.env.StreamWin
		s.state = 1
		s.prio = op.P
		w.ws.OpenStream(op.S, OpenStreamOptions{priority: op.P.param()})
	case c12Close:
		s := w.stream(op.S)
		w.ws.CloseStream(op.S)
		s.state = 2
		if len(s.q) > 0 {
			w.dropAt = true
			vw.Outcome("close:drops-queued")
		}
		s.dropped += len(s.q)
		s.q = s.q[:0]
	case c12Adjust:
		w.stream(op.S).prio = op.P // C13 refines this (buffering); C12 does not read it
		w.ws.AdjustStream(op.S, op.P.param())
	case c12Headers:
		s := w.stream(op.S)
		w.seq++
		sl := w.slot()
		f := &sl.f
		*f = c12Frame{kind: c12Headers, sid: op.S, seq: w.seq, done: sl.done}
		sl.wh = writeResHeaders{streamID: op.S, httpResCode: 200 + w.seq}
		f.write = &sl.wh
		s.q = append(s.q, f)
		s.pushed++
		w.ws.Push(FrameWriteRequest{write: f.write, stream: s.real, done: f.done})
	case c12Data:
		s := w.stream(op.S)
		w.seq++
		sl := w.slot()
		f := &sl.f
		*f = c12Frame{kind: c12Data, sid: op.S, seq: w.seq, end: op.End, done: sl.done}
		if cap(sl.buf) < int(op.N) {
			sl.buf = make([]byte, op.N)
		}
		f.data = sl.buf[:op.N:op.N]
		for i := range f.data {
			f.data[i] = c12DataByte(w.seq, i)
		}
		sl.wd = writeData{streamID: op.S, p: f.data, endStream: op.End}
		f.write = &sl.wd
		s.q = append(s.q, f)
		s.pushed++
		w.ws.Push(FrameWriteRequest{write: f.write, stream: s.real, done: f.done})
	case c12RST:
		w.seq++
		f := &w.slot().f
		*f = c12Frame{kind: c12RST, sid: op.S, seq: w.seq}
		f.write = StreamError{StreamID: op.S, Code: ErrCode(1000 + w.seq)}
		w.ctl = append(w.ctl, f)
		w.ws.Push(FrameWriteRequest{write: f.write})
	case c12Ctl:
		w.seq++
		f := &w.slot().f
		*f = c12Frame{kind: c12Ctl, seq: w.seq}
		f.write = writePing{data: [8]byte{byte(w.seq), 0xc1}}
		w.ctl = append(w.ctl, f)
		w.ws.Push(FrameWriteRequest{write: f.write})
	case c12Win:
		if op.S == 0 {
			w.sc.flow.add(op.N)
			w.conn += op.N
		} else {
			s := w.stream(op.S)
			s.real.flow.add(op.N)
			s.win += op.N
		}
	case c12Pop:
		info = w.pop(vw)
	}
	return info, !w.failed
}

// sendable reports whether the head of s's model queue can be written now.
func (w *c12World) sendable(s *c12Stream) bool {
	if s.state != 1 || len(s.q) == 0 {
		return false
	}
	h := s.q[0]
	if h.kind != c12Data || len(h.data)-h.off == 0 {
		return true
	}
	return min(s.win, w.conn) > 0
}

func (w *c12World) situation() string {
	if w.dropAt {
		return "after-close-with-queued-frames"
	}
	return "no-queued-frames-closed"
}

// pop runs one Pop on the real scheduler and checks it against the model,
// following the scheduler's choice.
func (w *c12World) pop(vw *vx.W) (info c12PopInfo) {
	if w.popWouldHang9218() {
		w.failf(vw, "pop-would-not-terminate/priority-ring-does-not-return-to-its-head", "an (urgency, incremental) head points to a queue that is not part of the ring it leads into and every queue on the way is empty; Pop would loop forever")
		return
	}
	wr, ok := w.ws.Pop()
	if !ok {
		if len(w.ctl) > 0 {
			w.failf(vw, "pop-false-while-sendable/control", "Pop reported no frame while %d control frame(s) are queued", len(w.ctl))
			return
		}
		for id := range w.streams {
			s := &w.streams[id]
			if w.sendable(s) {
				h := s.q[0]
				kind := h.kind.String()
				if h.kind == c12Data && len(h.data)-h.off == 0 {
					kind = "zero-length-data"
				}
				w.failf(vw, "pop-false-while-sendable/"+kind, "Pop reported no frame while stream %d has a sendable %s frame at the head of its queue (stream window %d, conn window %d); queued on it: %d", id, kind, s.win, w.conn, len(s.q))
				return
			}
		}
		queued := 0
		for id := range w.streams {
			queued += len(w.streams[id].q)
		}
		if queued > 0 {
			vw.Outcome("pop:none(flow-blocked)")
		} else {
			vw.Outcome("pop:none(empty)")
		}
		return
	}
	info.OK = true
	if wr.write == nil {
		w.failf(vw, "pop-empty-request/"+w.situation(), "Pop returned ok=true with an empty FrameWriteRequest (write == nil, stream == %v)", wr.stream != nil)
		return
	}
	w.pops++
	if wr.stream == nil {
		// control-class frame: must be one that is queued; non-RST control
		// frames (stream id 0) keep their push order, RST_STREAM is exempt.
		idx := -1
		for i, f := range w.ctl {
			if f.write == wr.write {
				idx = i
				break
			}
		}
		if idx < 0 {
			w.failf(vw, "pop-control-not-queued", "Pop returned control frame %v that is not queued (never pushed, or delivered twice)", wr)
			return
		}
		f := w.ctl[idx]
		if f.kind == c12Ctl {
			for _, g := range w.ctl[:idx] {
				if g.kind == c12Ctl {
					w.failf(vw, "pop-control-out-of-order", "Pop returned connection control frame #%d before the earlier pushed #%d", f.seq, g.seq)
					return
				}
			}
		}
		w.ctl = append(w.ctl[:idx:idx], w.ctl[idx+1:]...)
		info.Ctl, info.Whole = true, true
		vw.Outcome("pop:" + f.kind.String())
		return
	}
	if len(w.ctl) > 0 {
		w.failf(vw, "pop-stream-frame-before-control", "Pop returned a frame of stream %d while %d control frame(s) are queued", wr.stream.id, len(w.ctl))
		return
	}
	var s *c12Stream
	for id := range w.streams {
		if x := &w.streams[id]; x.used && x.real == wr.stream {
			s = x
		}
	}
	if s == nil {
		w.failf(vw, "pop-unknown-stream", "Pop returned a frame whose stream pointer (id %d) was never used in a Push", wr.stream.id)
		return
	}
	info.SID = s.id
	if s.state != 1 {
		w.failf(vw, "pop-frame-of-closed-stream", "Pop returned %v of stream %d, which was closed (its queued frames had to be discarded)", wr, s.id)
		return
	}
	if len(s.q) == 0 {
		w.failf(vw, "pop-frame-not-queued", "Pop returned %v of stream %d, which has nothing queued (delivered twice?)", wr, s.id)
		return
	}
	h := s.q[0]
	wd, isData := wr.write.(*writeData)
	if !isData || h.kind != c12Data {
		if wr.write != h.write {
			for _, g := range s.q[1:] {
				if g.write == wr.write {
					w.failf(vw, "pop-out-of-order", "Pop returned frame #%d of stream %d before the earlier pushed #%d", g.seq, s.id, h.seq)
					return
				}
			}
			if isData {
				w.failf(vw, "pop-out-of-order", "Pop returned a DATA frame of stream %d while the head of its queue is HEADERS #%d", s.id, h.seq)
				return
			}
			w.failf(vw, "pop-frame-not-queued", "Pop returned %v of stream %d, which is not queued (delivered twice?)", wr, s.id)
			return
		}
		if wr.done != h.done {
			w.failf(vw, "pop-done-channel-lost", "HEADERS #%d of stream %d came back with a different done channel", h.seq, s.id)
			return
		}
		s.q = s.q[1:]
		s.delivered++
		info.Whole, info.Queued = true, len(s.q)
		vw.Outcome("pop:headers")
		w.checkWindows(vw, "headers")
		return
	}
	// DATA: a prefix of what is left of the head frame.
	rem := h.data[h.off:]
	n := len(wd.p)
	if wd.streamID != s.id {
		w.failf(vw, "pop-data/wrong-stream-id", "DATA piece of stream %d carries stream id %d", s.id, wd.streamID)
		return
	}
	if len(rem) > 0 && n == 0 {
		w.failf(vw, "pop-data/zero-length-piece", "Pop returned a zero-length DATA piece of stream %d while %d bytes of frame #%d remain", s.id, len(rem), h.seq)
		return
	}
	if n > len(rem) || !bytes.Equal(wd.p, rem[:n]) {
		w.failf(vw, "pop-data/bytes-differ", "DATA piece of stream %d (%d bytes) is not the next bytes of frame #%d (remaining %d)", s.id, n, h.seq, len(rem))
		return
	}
	if int32(n) > min(s.win, w.conn) && n > 0 {
		w.failf(vw, "pop-data/exceeds-window", "DATA piece of %d bytes on stream %d exceeds the flow-control window (stream %d, conn %d)", n, s.id, s.win, w.conn)
		return
	}
	if int32(n) > w.env.MaxFrame {
		w.failf(vw, "pop-data/exceeds-max-frame-size", "DATA piece of %d bytes on stream %d exceeds maxFrameSize %d", n, s.id, w.env.MaxFrame)
		return
	}
	final := n == len(rem)
	if final {
		if wd.endStream != h.end {
			w.failf(vw, "pop-data/end-stream-flag-on-final-piece", "final piece of DATA #%d on stream %d has endStream=%v, pushed %v", h.seq, s.id, wd.endStream, h.end)
			return
		}
		if wr.done != h.done {
			w.failf(vw, "pop-done-channel-lost", "final piece of DATA #%d on stream %d does not carry the frame's done channel", h.seq, s.id)
			return
		}
		s.q = s.q[1:]
		s.delivered++
		if h.off == 0 {
			vw.Outcome("pop:data-whole")
		} else {
			vw.Outcome("pop:data-last-piece")
		}
	} else {
		if wd.endStream {
			w.failf(vw, "pop-data/end-stream-on-non-final-piece", "non-final %d-byte piece of DATA #%d on stream %d has END_STREAM", n, h.seq, s.id)
			return
		}
		if wr.done != nil {
			w.failf(vw, "pop-data/done-on-non-final-piece", "non-final piece of DATA #%d on stream %d carries a done channel", h.seq, s.id)
			return
		}
		h.off += n
		vw.Outcome("pop:data-piece")
	}
	s.win -= int32(n)
	w.conn -= int32(n)
	info.Bytes, info.Whole, info.Queued = n, final, len(s.q)
	w.checkWindows(vw, "data")
	return
}

// checkWindows compares every real send window with the model.
func (w *c12World) checkWindows(vw *vx.W, after string) {
	if w.sc.flow.n != w.conn {
		w.failf(vw, "window-not-debited-exactly/"+after, "after a Pop of %s the connection window is %d, model %d", after, w.sc.flow.n, w.conn)
		return
	}
	for id := range w.streams {
		s := &w.streams[id]
		if s.real != nil && s.real.flow.n != s.win {
			w.failf(vw, "window-not-debited-exactly/"+after, "after a Pop of %s the window of stream %d is %d, model %d", after, id, s.real.flow.n, s.win)
			return
		}
	}
}

// drain opens every window and pops until the scheduler reports nothing; each
// Pop goes through the same oracle, so at the end delivered + dropped-by-Close
// = pushed, per stream in push order.
func (w *c12World) drain(vw *vx.W) {
	const big = 1 << 20
	w.sc.flow.add(big)
	w.conn += big
	left := len(w.ctl)
	for id := range w.streams {
		s := &w.streams[id]
		if s.state == 1 {
			s.real.flow.add(big)
			s.win += big
			for _, f := range s.q {
				left += 1 + (len(f.data)-f.off)/int(min(w.env.MaxFrame, math.MaxInt32))
			}
		}
	}
	for i := 0; ; i++ {
		if i > left+8 {
			w.failf(vw, "drain-does-not-terminate", "the final drain popped %d frames though at most %d pieces were queued", i, left)
			return
		}
		info, _ := w.apply(vw, c12Op{K: c12Pop})
		if w.failed || !info.OK {
			break
		}
	}
	if w.failed {
		return
	}
	for id := range w.streams {
		s := &w.streams[id]
		if s.pushed != s.delivered+s.dropped+len(s.q) || len(s.q) != 0 {
			// cannot happen: the Pop oracle above is stricter; a harness bug.
			panic(fmt.Sprintf("c12 harness: conservation bookkeeping broken on stream %d: pushed %d delivered %d dropped %d queued %d", id, s.pushed, s.delivered, s.dropped, len(s.q)))
		}
	}
}
