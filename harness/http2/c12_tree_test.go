// C12, RFC 7540 priority tree: explicit-state search over AdjustStream /
// OpenStream / CloseStream / Push(HEADERS) / Pop with state deduplication on the
// real scheduler's private state (the tree, the closed/idle lists, the queues).
// The RFC 7540 scheduler is deterministic, so vx.Seq's replay is sound here.
// Every explored state is finished by pushing one HEADERS frame on every open
// stream and draining: each must come out exactly once (no open stream may be
// lost from, or unreachable in, the tree).

//go:build !(go1.27 && !http2legacy)

package http2

import (
	"fmt"
	"sort"
	"strings"

	"golang.org/x/net/internal/zzverif/vx"
)

var c12TreeIDs = []uint32{1, 3, 5}

func c12TreeOps() []c12Op {
	var ops []c12Op
	for _, s := range c12TreeIDs {
		ops = append(ops, c12Op{K: c12Open, S: s, P: c12Prio{W: 15, U: 3}})
	}
	ops = append(ops, c12Op{K: c12Pop})
	for _, s := range c12TreeIDs {
		ops = append(ops, c12Op{K: c12Headers, S: s})
	}
	for _, s := range c12TreeIDs {
		ops = append(ops, c12Op{K: c12Close, S: s})
	}
	all := []uint32{1, 3, 5, 7}
	weight := map[uint32]uint8{1: 15, 3: 255, 5: 15, 7: 0} // unequal sibling weights exercise the sorting walk
	for _, s := range all {
		for _, d := range []uint32{0, 1, 3, 5, 7} {
			if d == s {
				continue
			}
			for _, excl := range []bool{false, true} {
				ops = append(ops, c12Op{K: c12Adjust, S: s, P: c12Prio{Dep: d, Excl: excl, W: weight[s], U: 3}})
			}
		}
	}
	return ops
}

// c12TreeCanon serialises the complete private state of the scheduler and the
// model state that matters for the future.
func c12TreeCanon(w *c12World) string {
	ws := w.ws.(*priorityWriteSchedulerRFC7540)
	var b strings.Builder
	qs := func(q *writeQueue) string {
		return fmt.Sprintf("%d/%d/%d", len(q.currQueue)-q.currPos, len(q.nextQueue), q.currPos)
	}
	ids := make([]int, 0, len(ws.nodes))
	for id := range ws.nodes {
		ids = append(ids, int(id))
	}
	sort.Ints(ids)
	for _, id := range ids {
		n := ws.nodes[uint32(id)]
		par := -1
		if n.parent != nil {
			par = int(n.parent.id)
		}
		fmt.Fprintf(&b, "n%d:s%d,w%d,p%d,b%d/%d,q%s,k[", id, n.state, n.weight, par, n.bytes, n.subtreeBytes, qs(&n.q))
		for k := n.kids; k != nil; k = k.next {
			fmt.Fprintf(&b, "%d ", k.id)
		}
		b.WriteString("];")
	}
	b.WriteString("closed[")
	for _, n := range ws.closedNodes {
		fmt.Fprintf(&b, "%d ", n.id)
	}
	b.WriteString("]idle[")
	for _, n := range ws.idleNodes {
		fmt.Fprintf(&b, "%d ", n.id)
	}
	fmt.Fprintf(&b, "]max%d,thr%d,pool%d|", ws.maxID, ws.writeThrottleLimit, len(ws.queuePool))
	for id := range w.streams {
		s := &w.streams[id]
		if s.used {
			fmt.Fprintf(&b, "m%d:%d,%d;", id, s.state, len(s.q))
		}
	}
	fmt.Fprintf(&b, "ctl%d,drop%v", len(w.ctl), w.dropAt)
	return b.String()
}

// c12TreeCycle reports whether following parent or kids links from the root
// revisits a node (Pop would recurse forever).
func c12TreeCycle(ws *priorityWriteSchedulerRFC7540) bool {
	seen := map[*priorityNodeRFC7540]bool{}
	var walk func(n *priorityNodeRFC7540, depth int) bool
	walk = func(n *priorityNodeRFC7540, depth int) bool {
		if seen[n] || depth > 64 {
			return true
		}
		seen[n] = true
		for k := n.kids; k != nil; k = k.next {
			if walk(k, depth+1) {
				return true
			}
		}
		return false
	}
	return walk(&ws.root, 0)
}

func c12TreeSearch(c *vx.Ctx, sched string, depth, maxStates int) {
	env := c12Envs()["open"]
	ops := c12TreeOps()
	contract := func(w *c12World) c12Contract {
		ct := c12Contract{canOpen: c12TreeIDs}
		for id := range w.streams {
			ct.st[id] = w.streams[id].state
		}
		return ct
	}
	vx.Seq(c, vx.SeqSpec[*c12World, c12Op]{
		Part:      "tree/" + sched,
		New:       func() *c12World { return c12NewWorld("C12", sched, env) },
		Close:     func(w *c12World) { w.release() },
		Ops:       ops,
		Depth:     depth,
		MaxStates: maxStates,
		Enabled: func(w *c12World, op c12Op) bool {
			ct := contract(w)
			if !ct.enabled(op) {
				return false
			}
			if op.K == c12Headers && len(w.streams[op.S].q) > 0 {
				return false // at most one queued frame per stream keeps the state space finite
			}
			return true
		},
		Apply: func(vw *vx.W, w *c12World, op c12Op) bool {
			if op.K == c12Pop && c12TreeCycle(w.ws.(*priorityWriteSchedulerRFC7540)) {
				w.failf(vw, "pop-would-not-terminate/priority-tree-has-a-cycle", "the priority tree reachable from the root contains a cycle; Pop would recurse forever")
				return false
			}
			_, cont := w.apply(vw, op)
			return cont
		},
		Canon: c12TreeCanon,
		Final: func(vw *vx.W, w *c12World) {
			for _, id := range c12TreeIDs {
				if s := &w.streams[id]; s.state == 1 && len(s.q) == 0 {
					if _, cont := w.apply(vw, c12Op{K: c12Headers, S: id}); !cont {
						return
					}
				}
			}
			if c12TreeCycle(w.ws.(*priorityWriteSchedulerRFC7540)) {
				w.failf(vw, "pop-would-not-terminate/priority-tree-has-a-cycle", "the priority tree reachable from the root contains a cycle; Pop would recurse forever")
				return
			}
			w.drain(vw)
			if !w.failed {
				vw.Outcome(fmt.Sprintf("tree-drain:%d-frames", min(w.pops, 3)))
			}
		},
	})
}
