//go:build !(go1.27 && !http2legacy)

package http2_test

// Shared event-level (EV) harness for the client-side flow-control checks
// C09, C10 (client part) and C11 (client part).
//
// One case = one event sequence executed against a fresh, real
// Transport/ClientConn over an in-memory connection inside its own
// testing/synctest bubble. The harness is the server (real Framer for
// encoding, its own non-fatal frame reads for observing) and the application:
// one goroutine per request calls RoundTrip and then executes harness
// commands (Read / Close on the response body); request bodies are
// harness-controlled readers.

import (
	"context"
	"errors"
	"fmt"
	"io"
	"log"
	"net/http"
	"os"
	"sync"
	"sync/atomic"
	"testing"
	"testing/synctest"

	. "golang.org/x/net/http2"
)

// c09cliCfg is the Transport configuration of a case.
type c09cliCfg struct {
	StrWin  int `json:"str_win,omitempty"`  // http.HTTP2Config.MaxReceiveBufferPerStream (0 = default 4 MiB)
	ConnWin int `json:"conn_win,omitempty"` // http.HTTP2Config.MaxReceiveBufferPerConnection (0 = default 1 GiB)
}

// c09cliCase is the replayable form of one client-side case.
type c09cliCase struct {
	Cfg     c09cliCfg `json:"cfg"`
	SeedLen int       `json:"seed_len"`
	Evs     []string  `json:"ev"`
}

// c09cliBody is a harness-controlled request body.
type c09cliBody struct {
	mu     sync.Mutex
	cond   *sync.Cond
	avail  int
	off    int
	eof    bool
	closed bool
	given  int // total bytes made available
}

func newC09cliBody() *c09cliBody {
	b := &c09cliBody{}
	b.cond = sync.NewCond(&b.mu)
	return b
}

func (b *c09cliBody) Read(p []byte) (int, error) {
	b.mu.Lock()
	defer b.mu.Unlock()
	for b.avail == 0 && !b.eof && !b.closed {
		b.cond.Wait()
	}
	if b.closed {
		return 0, errors.New("c09cli: request body closed")
	}
	if b.avail > 0 {
		n := min(len(p), b.avail)
		for i := 0; i < n; i++ {
			p[i] = byte((b.off + i) % 251)
		}
		b.off += n
		b.avail -= n
		return n, nil
	}
	return 0, io.EOF
}

func (b *c09cliBody) Close() error {
	b.mu.Lock()
	b.closed = true
	b.cond.Broadcast()
	b.mu.Unlock()
	return nil
}

func (b *c09cliBody) more(n int) {
	b.mu.Lock()
	b.avail += n
	b.given += n
	b.cond.Broadcast()
	b.mu.Unlock()
}

func (b *c09cliBody) end() {
	b.mu.Lock()
	b.eof = true
	b.cond.Broadcast()
	b.mu.Unlock()
}

// c09cliReq is one application request.
type c09cliReq struct {
	idx      int
	sid      atomic.Uint32
	body     *c09cliBody
	cancel   context.CancelFunc
	cmd      chan func()
	busy     atomic.Bool // in RoundTrip or executing a command
	rtDone   atomic.Bool
	returned atomic.Bool

	resp    *http.Response
	rtErr   error
	readBuf []byte
	readErr error
	closed  bool
}

func (r *c09cliReq) idle() bool { return r.rtDone.Load() && !r.busy.Load() && !r.returned.Load() }

type c09cliEnv struct {
	t          testing.TB
	tc         *testClientConn
	reqs       []*c09cliReq
	connClosed bool
	harnessErr string
	wireErr    string
	cliSettings map[SettingID]uint32
}

func (e *c09cliEnv) herr(format string, a ...any) {
	if e.harnessErr == "" {
		e.harnessErr = fmt.Sprintf(format, a...)
	}
}

// c09cliNew builds the ClientConn; the caller drains the client preface
// frames and sends the server's SETTINGS.
func c09cliNew(t testing.TB, cfg c09cliCfg) *c09cliEnv {
	e := &c09cliEnv{t: t, cliSettings: map[SettingID]uint32{}}
	// The Transport reports peer protocol errors through the standard logger.
	log.SetOutput(io.Discard)
	t.Cleanup(func() { log.SetOutput(os.Stderr) })
	e.tc = newTestClientConn(t, func(t1 *http.Transport) {
		if cfg.StrWin != 0 || cfg.ConnWin != 0 {
			t1.HTTP2 = &http.HTTP2Config{
				MaxReceiveBufferPerStream:     cfg.StrWin,
				MaxReceiveBufferPerConnection: cfg.ConnWin,
			}
		}
	})
	return e
}

// wr records the outcome of a frame write by the harness (the server side).
func (e *c09cliEnv) wr(err error) {
	if err != nil {
		e.connClosed = true
	}
	synctest.Wait()
}

// drain reads every frame the client has written so far (non-fatal).
func (e *c09cliEnv) drain() []c08srvFrame {
	var out []c08srvFrame
	for {
		f, err := e.tc.fr.ReadFrame()
		if err != nil {
			switch {
			case err == errWouldBlock:
			case err == io.EOF || errors.Is(err, io.ErrUnexpectedEOF):
				e.connClosed = true
			default:
				if e.wireErr == "" {
					e.wireErr = err.Error()
				}
				e.connClosed = true
			}
			return out
		}
		h := f.Header()
		r := c08srvFrame{Type: h.Type, Flags: h.Flags, Stream: h.StreamID, Len: h.Length}
		switch f := f.(type) {
		case *DataFrame:
			r.End = f.StreamEnded()
		case *HeadersFrame:
			r.End = f.StreamEnded()
		case *WindowUpdateFrame:
			r.Inc = f.Increment
		case *RSTStreamFrame:
			r.Code = f.ErrCode
		case *GoAwayFrame:
			r.Code = f.ErrCode
		case *SettingsFrame:
			r.Ack = f.IsAck()
			if !r.Ack {
				f.ForeachSetting(func(s Setting) error {
					e.cliSettings[s.ID] = s.Val
					return nil
				})
			}
		}
		out = append(out, r)
	}
}

// start launches request number len(e.reqs) on its own application goroutine.
func (e *c09cliEnv) start(withBody bool) *c09cliReq {
	r := &c09cliReq{idx: len(e.reqs), cmd: make(chan func())}
	ctx, cancel := context.WithCancel(context.Background())
	r.cancel = cancel
	var body io.ReadCloser
	method := "GET"
	if withBody {
		r.body = newC09cliBody()
		body = r.body
		method = "POST"
	}
	req, err := http.NewRequestWithContext(ctx, method, fmt.Sprintf("https://dummy.tld/%d", r.idx), body)
	if err != nil {
		e.herr("NewRequest: %v", err)
		return nil
	}
	e.reqs = append(e.reqs, r)
	r.busy.Store(true)
	go func() {
		defer func() {
			if r.resp != nil && !r.closed {
				r.resp.Body.Close()
			}
			r.returned.Store(true)
			r.busy.Store(false)
		}()
		r.resp, r.rtErr = e.tc.cc.TestRoundTrip(req, func(id uint32) { r.sid.Store(id) })
		r.rtDone.Store(true)
		r.busy.Store(false)
		for f := range r.cmd {
			f()
			r.busy.Store(false)
		}
	}()
	synctest.Wait()
	return r
}

func (e *c09cliEnv) reqByStream(id uint32) *c09cliReq {
	for _, r := range e.reqs {
		if r.sid.Load() == id {
			return r
		}
	}
	return nil
}

// do runs f on the application goroutine of r and waits for quiescence.
func (e *c09cliEnv) do(r *c09cliReq, f func()) {
	if !r.idle() {
		e.herr("command for busy/returned application goroutine of request %d", r.idx)
		return
	}
	r.busy.Store(true)
	r.cmd <- f
	synctest.Wait()
}

// teardown cancels everything and lets every goroutine exit.
func (e *c09cliEnv) teardown() {
	for _, r := range e.reqs {
		r.cancel()
		if r.body != nil {
			r.body.Close()
		}
	}
	e.tc.closeWrite()
	synctest.Wait()
	for _, r := range e.reqs {
		if r.returned.Load() {
			continue
		}
		if r.busy.Load() {
			e.herr("application goroutine of request %d still blocked after cancel and connection close", r.idx)
			continue
		}
		r.busy.Store(true)
		close(r.cmd)
	}
	synctest.Wait()
}

// respHeaders writes response HEADERS for stream id.
func (e *c09cliEnv) respHeaders(id uint32, endStream bool, kv ...string) {
	kv = append([]string{":status", "200"}, kv...)
	e.wr(e.tc.fr.WriteHeaders(HeadersFrameParam{
		StreamID:      id,
		EndHeaders:    true,
		EndStream:     endStream,
		BlockFragment: e.tc.makeHeaderBlockFragment(kv...),
	}))
}
