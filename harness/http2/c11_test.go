//go:build !(go1.27 && !http2legacy)

package http2_test

// C11 — HTTP/2 endpoints enforce their advertised receive windows (server
// and client). One check, two parts: the server part runs on the h2srv harness
// (c10srv_test.go, enforce mode), the client part on the h2cli harness
// (c11cli_test.go).

import (
	"testing"

	. "golang.org/x/net/http2"
	"golang.org/x/net/internal/zzverif/vx"
)

// c11srvAlphabet is c10srvAlphabet plus, per stream, the PADDED
// boundary-relative frames DRP(s, rel, ovh): frame length w+rel of which ovh
// bytes are pad-length byte + padding (simplest first: fixed frames, unpadded
// relative frames, padded relative frames by growing overhead).
func c11srvAlphabet(cls []int64, data [][3]int64, reads []int64, extras []string, rel, ovhs []int64) []c08srvEv {
	var a []c08srvEv
	for _, ev := range c10srvAlphabet(cls, data, nil, nil, rel) {
		a = append(a, ev)
		if ev.K == "DR" && ev.arg(1) == rel[len(rel)-1] {
			for _, o := range ovhs {
				for _, r := range rel {
					a = append(a, c08srvEv{K: "DRP", A: []int64{ev.arg(0), r, o, 0}})
				}
			}
		}
	}
	return append(a, c10srvAlphabet(nil, nil, reads, extras, nil)...)
}

func c11srvParts(c *vx.Ctx) []c10srvPart {
	small := c08srvCfg{Sched: "9218", StrWin: 8}          // stream boundary reachable with 1..9 byte frames
	mid := c08srvCfg{Sched: "9218", StrWin: 600}          // stream boundary reachable with maximal padding (pad length 255) on more than one frame
	connB := c08srvCfg{Sched: "9218", ConnWin: 65535}     // connection boundary: 65535 (cannot be configured lower)
	seedConn := []string{"H(-1)", "D(1,16384,0,0)", "D(1,16384,0,0)", "D(1,16384,0,0)"} // 16383 bytes of connection window left
	seedConn2 := []string{"H(-1)", "H(-1)", "D(1,16384,0,0)", "D(3,16384,0,0)", "D(1,16384,0,0)"}
	d := [][3]int64{{1, 0, 0}, {0, 0, 0}}
	// (payload, padding): fixed padded frames well inside the window, so that
	// their padding credit is still batched in inflow.unsent (not yet returned
	// by WINDOW_UPDATE) when the next frame is sized against the window.
	dPadS := [][3]int64{{1, 0, 0}, {0, 0, 0}, {1, 1, 0}}
	dPadL := [][3]int64{{1, 0, 0}, {0, 0, 0}, {1, 1, 0}, {1, 255, 0}}
	rel := []int64{-1, 0, 1}
	// pad-length byte + padding: PADDED with no padding, small, maximal (RFC 9113 §6.1)
	ovhS := []int64{1, 3}
	ovhL := []int64{1, 3, 256}
	aSmall := c10srvAlphabet([]int64{-1}, d, []int64{1, 100}, []string{"C"}, rel)
	aConn := c10srvAlphabet(nil, d, []int64{1, 100, 20000}, []string{"C"}, rel)
	pSmall := c11srvAlphabet([]int64{-1}, dPadS, []int64{1, 100}, []string{"C"}, rel, ovhS)
	pMid := c11srvAlphabet([]int64{-1}, dPadL, []int64{1, 1000}, []string{"C"}, rel, ovhL)
	pConn := c11srvAlphabet(nil, dPadL, []int64{1, 100, 20000}, []string{"C"}, rel, ovhL)
	if c.Quick() {
		return []c10srvPart{
			{"srv/win8/empty", small, nil, aSmall, 5},
			{"srv/conn65535/prefilled", connB, seedConn, aConn, 4},
			{"srv/conn65535/prefilled-two-streams", connB, seedConn2, aConn, 3},
			{"srv/win8/padded", small, nil, pSmall, 5},
			{"srv/win600/padded", mid, nil, pMid, 4},
			{"srv/conn65535/prefilled/padded", connB, seedConn, pConn, 3},
			{"srv/conn65535/prefilled-two-streams/padded", connB, seedConn2, pConn, 2},
		}
	}
	return []c10srvPart{
		{"srv/win8/empty", small, nil, aSmall, 7},
		{"srv/conn65535/prefilled", connB, seedConn, aConn, 6},
		{"srv/conn65535/prefilled-two-streams", connB, seedConn2, aConn, 4},
		{"srv/rr/win8/empty", c08srvCfg{Sched: "rr", StrWin: 8}, nil, aSmall, 5},
		{"srv/win8/padded", small, nil, pSmall, 6},
		{"srv/win600/padded", mid, nil, pMid, 5},
		{"srv/conn65535/prefilled/padded", connB, seedConn, pConn, 4},
		{"srv/conn65535/prefilled-two-streams/padded", connB, seedConn2, pConn, 3},
	}
}

func TestVerif_C11(t *testing.T) {
	DisableGoroutineTracking(t) // debug-only goroutine-ownership assertions (stack parsing); no behavioural effect
	vx.Run(t, "C11", func(c *vx.Ctx) {
		c.Rule("EV, server part: configured stream window 8 or 600 (stream boundary; 600 so that frames with the maximal pad length 255 fit more than once) or connection window 65535 pre-filled by three 16384-byte frames (connection boundary); every event sequence of depth 1..D after the seed over {H (<=2 POST streams), unpadded DATA(stream, len = w-1 | w | w+1 relative to the monitor's current min(stream, connection) window w, and len 1, 0), in the */padded parts also PADDED DATA whose whole frame payload (pad-length byte + data + padding, RFC 9113 §6.9.1) is w-1 | w | w+1 with pad-length byte + padding = 1 (PADDED, no padding) | 3 | 256 (pad length 255) bytes of it, and fixed 1-byte-payload frames with pad length 1 | 255 that stay well inside the window so that their padding credit is still batched (not yet returned by WINDOW_UPDATE) when the next frame is sized, handler Read(n), Body.Close}; the monitor debits the whole frame payload and credits WINDOW_UPDATEs; an out-of-window frame (including one whose data bytes alone would still fit) ends the sequence; oracle: DATA inside both advertised windows is never answered with FLOW_CONTROL_ERROR and is delivered to the handler in order (a final drain reads everything that was accepted); DATA beyond a window is answered with RST_STREAM or GOAWAY carrying FLOW_CONTROL_ERROR and handler Reads never return more than the in-window prefix. non-trivial = at least one DATA frame was sent")
		c.Assume("RFC 7540 §6.9.1 allows a stream or a connection error for a flow-control violation; either is accepted for both windows (the server answers connection-window violations with a stream error)")
		c.Assume("after an out-of-window frame the client's view of the windows is undefined, so such a frame is always the last event of a sequence")
		c.Assume("interleavings are explored at event granularity (L2); sends racing with WINDOW_UPDATEs the endpoint emits are therefore always sent after those updates were received")
		c.Assume("the Transport reports a connection-level FLOW_CONTROL_ERROR by failing the connection (and every pending request/body) with that error; the GOAWAY frame it writes is left in a buffer that is not flushed before the close (RFC 7540 §5.4.1 makes GOAWAY a SHOULD), so the oracle accepts the error code on the wire or as the ClientConn's read-loop error")
		c.Rule("states = explored event histories (stateless search), transitions = events applied to the real endpoint and checked at quiescence, traces = histories executed to their end")
		c08Determinism(c, func(w *vx.W, t testing.TB) ([]string, string) {
			res, herr := c10srvRunCase(w, t, c08srvCase{Cfg: c08srvCfg{Sched: "9218", StrWin: 8}, Evs: []string{"H(-1)", "DR(1,-1,0)", "R(1,1)", "D(1,1,0,0)", "R(1,100)", "DR(1,0,0)", "DR(1,1,0)"}}, c10sMode{id: "C11", enforce: true})
			return res.trace, herr
		})
		c10srvRunParts(c, c10sMode{id: "C11", enforce: true}, c11srvParts(c))
		c11cliRunParts(c)
	})
}
