//go:build !(go1.27 && !http2legacy)

package http2_test

// c15srv: event-level harness around one real http2.Server connection inside a
// testing/synctest bubble. The harness is the client (it writes bytes built
// with a real Framer, and decodes what the server writes with its own small
// decoder) and it is every request handler (handler goroutines execute
// harness commands). Shared by C15 and C16.

import (
	"bytes"
	"crypto/tls"
	"encoding/binary"
	"fmt"
	"io"
	"log"
	"net/http"
	"runtime/debug"
	"strings"
	"sync"
	"testing"
	"testing/synctest"
	"time"

	. "golang.org/x/net/http2"
	"golang.org/x/net/http2/hpack"
	"golang.org/x/net/internal/zzverif/vx"
)

// ---- wire decoder (independent of the package's Framer) ---------------------

type c15Frame struct {
	Type      FrameType
	Flags     Flags
	Stream    uint32
	Len       int
	EndStream bool
	Ack       bool
	Code      ErrCode // RST_STREAM, GOAWAY
	Last      uint32  // GOAWAY
	Ping      [8]byte
	Settings  []Setting
	Status    string // HEADERS: value of :status ("" = none, e.g. trailers)
	Fields    [][2]string // HEADERS: the decoded header list
	Incr      uint32
	Step      int
}

func (f c15Frame) String() string {
	switch f.Type {
	case FrameData:
		return fmt.Sprintf("DATA(s=%d,len=%d,end=%v)", f.Stream, f.Len, f.EndStream)
	case FrameHeaders:
		return fmt.Sprintf("HEADERS(s=%d,status=%q,end=%v)", f.Stream, f.Status, f.EndStream)
	case FrameRSTStream:
		return fmt.Sprintf("RST_STREAM(s=%d,%v)", f.Stream, f.Code)
	case FrameSettings:
		if f.Ack {
			return "SETTINGS(ack)"
		}
		return fmt.Sprintf("SETTINGS(%v)", f.Settings)
	case FramePing:
		return fmt.Sprintf("PING(ack=%v,%x)", f.Ack, f.Ping)
	case FrameGoAway:
		return fmt.Sprintf("GOAWAY(last=%d,%v)", f.Last, f.Code)
	case FrameWindowUpdate:
		return fmt.Sprintf("WINDOW_UPDATE(s=%d,+%d)", f.Stream, f.Incr)
	}
	return fmt.Sprintf("%v(s=%d,len=%d,flags=%#x)", f.Type, f.Stream, f.Len, uint8(f.Flags))
}

type c15Wire struct {
	buf    []byte
	hdec   *hpack.Decoder
	hblock []byte
	hcur   *c15Frame
	bad    string // first framing problem of the peer's output
}

func c15NewWire() *c15Wire {
	return &c15Wire{hdec: hpack.NewDecoder(4096, nil)}
}

func (wr *c15Wire) setBad(format string, a ...any) {
	if wr.bad == "" {
		wr.bad = fmt.Sprintf(format, a...)
	}
}

// feed appends bytes and returns the frames completed by them.
func (wr *c15Wire) feed(b []byte, step int) []c15Frame {
	wr.buf = append(wr.buf, b...)
	var out []c15Frame
	for len(wr.buf) >= 9 {
		n := int(wr.buf[0])<<16 | int(wr.buf[1])<<8 | int(wr.buf[2])
		if len(wr.buf) < 9+n {
			break
		}
		f := c15Frame{
			Type:   FrameType(wr.buf[3]),
			Flags:  Flags(wr.buf[4]),
			Stream: binary.BigEndian.Uint32(wr.buf[5:9]) & (1<<31 - 1),
			Len:    n,
			Step:   step,
		}
		p := wr.buf[9 : 9+n]
		wr.buf = wr.buf[9+n:]
		if wr.hcur != nil && f.Type != FrameContinuation {
			wr.setBad("frame %v interleaved in a header block of stream %d", f.Type, wr.hcur.Stream)
		}
		switch f.Type {
		case FrameData:
			f.EndStream = f.Flags&0x1 != 0
			if f.Flags&0x8 != 0 && n > 0 {
				pad := int(p[0])
				if pad+1 > n {
					wr.setBad("DATA padding exceeds the frame")
				} else {
					f.Len = n // flow-controlled length includes padding
				}
			}
		case FrameHeaders:
			f.EndStream = f.Flags&0x1 != 0
			frag := p
			if f.Flags&0x8 != 0 && len(frag) > 0 {
				pad := int(frag[0])
				frag = frag[1:]
				if pad > len(frag) {
					wr.setBad("HEADERS padding exceeds the frame")
					pad = len(frag)
				}
				frag = frag[:len(frag)-pad]
			}
			if f.Flags&0x20 != 0 && len(frag) >= 5 {
				frag = frag[5:]
			}
			wr.hblock = append(wr.hblock[:0], frag...)
			ff := f
			wr.hcur = &ff
			if f.Flags&0x4 != 0 {
				out = append(out, wr.endHeaders())
			}
			continue
		case FrameContinuation:
			if wr.hcur == nil || wr.hcur.Stream != f.Stream {
				wr.setBad("unexpected CONTINUATION on stream %d", f.Stream)
				continue
			}
			wr.hblock = append(wr.hblock, p...)
			if f.Flags&0x4 != 0 {
				out = append(out, wr.endHeaders())
			}
			continue
		case FrameRSTStream:
			if n == 4 {
				f.Code = ErrCode(binary.BigEndian.Uint32(p))
			} else {
				wr.setBad("RST_STREAM of length %d", n)
			}
		case FrameSettings:
			f.Ack = f.Flags&0x1 != 0
			if n%6 != 0 || (f.Ack && n != 0) {
				wr.setBad("SETTINGS of length %d (ack=%v)", n, f.Ack)
			}
			for i := 0; i+6 <= n; i += 6 {
				f.Settings = append(f.Settings, Setting{ID: SettingID(binary.BigEndian.Uint16(p[i:])), Val: binary.BigEndian.Uint32(p[i+2:])})
			}
		case FramePing:
			f.Ack = f.Flags&0x1 != 0
			if n == 8 {
				copy(f.Ping[:], p)
			} else {
				wr.setBad("PING of length %d", n)
			}
		case FrameGoAway:
			if n >= 8 {
				f.Last = binary.BigEndian.Uint32(p) & (1<<31 - 1)
				f.Code = ErrCode(binary.BigEndian.Uint32(p[4:]))
			} else {
				wr.setBad("GOAWAY of length %d", n)
			}
		case FrameWindowUpdate:
			if n == 4 {
				f.Incr = binary.BigEndian.Uint32(p) & (1<<31 - 1)
			} else {
				wr.setBad("WINDOW_UPDATE of length %d", n)
			}
		case FramePushPromise:
			// header block of a PUSH_PROMISE must be fed to the decoder, too
			frag := p
			if len(frag) >= 4 {
				frag = frag[4:]
			}
			wr.hblock = append(wr.hblock[:0], frag...)
			ff := f
			wr.hcur = &ff
			if f.Flags&0x4 != 0 {
				out = append(out, wr.endHeaders())
			}
			continue
		}
		out = append(out, f)
	}
	return out
}

func (wr *c15Wire) endHeaders() c15Frame {
	f := *wr.hcur
	wr.hcur = nil
	wr.hdec.SetEmitFunc(func(hf hpack.HeaderField) {
		if hf.Name == ":status" {
			f.Status = hf.Value
		}
		f.Fields = append(f.Fields, [2]string{hf.Name, hf.Value})
	})
	if _, err := wr.hdec.Write(wr.hblock); err != nil {
		wr.setBad("header block of stream %d does not decode: %v", f.Stream, err)
	}
	if err := wr.hdec.Close(); err != nil {
		wr.setBad("header block of stream %d does not decode: %v", f.Stream, err)
	}
	wr.hdec.SetEmitFunc(func(hpack.HeaderField) {})
	return f
}

// ---- the server under test + harness client/handlers ---------------------------

type c15srvOpts struct {
	MaxStreams uint32
	Sched      string // "" (default RFC 9218), "rr", "7540", "rand"
	ReadBuf    int    // >0: bound the harness' receive buffer (the server's writes block when it is full)
	NoPanicHook bool  // let a serve-goroutine panic kill the process
	Handler    func(w http.ResponseWriter, r *http.Request) // C16: replaces the command-driven handler body
}

type c15Handler struct {
	key      string
	cmd      chan string
	ack      chan string
	entered  int
	returned bool
	busy     bool
	known    bool
}

type c15srv struct {
	t    testing.TB
	o    c15srvOpts
	cli  *synctestNetConn
	sc   *ServerConn
	fr   *Framer
	wbuf bytes.Buffer
	henc *hpack.Encoder
	hbuf bytes.Buffer
	wire *c15Wire

	serveRet chan struct{}

	mu         sync.Mutex
	handlers   map[string]*c15Handler
	running    int
	maxRunning int
	enters     []string // keys in order of handler entry
	panics     []string // serve-goroutine panics (site: message)

	step     int
	frames   []c15Frame
	closed   bool // server closed the connection (EOF read)
	writeErr bool // a harness write failed (connection gone)
}

var c15TLSState = tls.ConnectionState{
	Version:            tls.VersionTLS13,
	ServerName:         "go.dev",
	CipherSuite:        tls.TLS_AES_128_GCM_SHA256,
	NegotiatedProtocol: "h2",
}

func c15srvNew(t testing.TB, o c15srvOpts) *c15srv {
	s := &c15srv{t: t, o: o, handlers: map[string]*c15Handler{}, serveRet: make(chan struct{}), wire: c15NewWire()}
	h1 := &http.Server{ErrorLog: log.New(io.Discard, "", 0)}
	h2 := &Server{MaxConcurrentStreams: o.MaxStreams}
	switch o.Sched {
	case "rr":
		h2.NewWriteScheduler = func() WriteScheduler { return NewRoundRobinWriteScheduler() }
	case "7540":
		h2.NewWriteScheduler = func() WriteScheduler { return NewPriorityWriteScheduler(nil) }
	case "rand":
		h2.NewWriteScheduler = func() WriteScheduler { return NewRandomWriteScheduler() }
	}
	ConfigureServer(h1, h2)
	cli, srv := synctestNetPipe()
	cli.SetReadDeadline(time.Now()) // reads never block: they return what is buffered
	if o.ReadBuf > 0 {
		cli.SetReadBufferSize(o.ReadBuf)
	}
	s.cli = cli
	s.fr = NewFramer(&s.wbuf, nil)
	s.fr.AllowIllegalWrites = true
	s.henc = hpack.NewEncoder(&s.hbuf)
	h2.TestSetNewConnFunc(func(sc *ServerConn) { s.sc = sc })
	if !o.NoPanicHook {
		SetTestHookOnPanic(t, func(sc *ServerConn, e any) bool {
			st := string(debug.Stack())
			s.mu.Lock()
			s.panics = append(s.panics, c15PanicSite(st)+": "+fmt.Sprint(e))
			s.mu.Unlock()
			return false
		})
	}
	go func() {
		defer close(s.serveRet)
		h2.ServeConn(&netConnWithConnectionState{Conn: srv, state: c15TLSState}, &ServeConnOpts{Handler: s, BaseConfig: h1})
	}()
	synctest.Wait()
	return s
}

// c15PanicSite names the repository function that panicked.
func c15PanicSite(st string) string {
	lines := strings.Split(st, "\n")
	seenPanic := false
	for _, l := range lines {
		if strings.HasPrefix(l, "panic(") {
			seenPanic = true
			continue
		}
		if !seenPanic || !strings.HasPrefix(l, "golang.org/x/net/") {
			continue
		}
		if j := strings.LastIndex(l, "("); j > 0 {
			l = l[:j]
		}
		return strings.TrimPrefix(l, "golang.org/x/net/")
	}
	return "unknown"
}

// ServeHTTP is every request handler. The request is identified by its x-id
// header; the handler then executes harness commands until told to return.
func (s *c15srv) ServeHTTP(w http.ResponseWriter, r *http.Request) {
	key := r.Header.Get("X-Id")
	s.mu.Lock()
	h := s.handlers[key]
	if h == nil {
		h = &c15Handler{key: key, cmd: make(chan string, 1), ack: make(chan string, 1)}
		close(h.cmd)
		s.handlers[key] = h
	}
	h.entered++
	s.running++
	if s.running > s.maxRunning {
		s.maxRunning = s.running
	}
	s.enters = append(s.enters, key)
	s.mu.Unlock()
	defer func() {
		s.mu.Lock()
		s.running--
		h.returned = true
		s.mu.Unlock()
	}()
	if s.o.Handler != nil {
		s.o.Handler(w, r)
		return
	}
	if strings.HasPrefix(key, "x") {
		// re-used stream id: answer at once
		w.WriteHeader(204)
		return
	}
	for c := range h.cmd {
		switch c {
		case "W":
			_, err := w.Write([]byte("hello"))
			if err == nil {
				err = w.(interface{ FlushError() error }).FlushError()
			}
			if err != nil {
				h.ack <- "W:err"
			} else {
				h.ack <- "W:ok"
			}
		case "R":
			var b [16]byte
			n, err := r.Body.Read(b[:])
			h.ack <- fmt.Sprintf("R:%d:%v", n, err != nil)
		case "F":
			return
		case "P":
			panic(http.ErrAbortHandler)
		}
	}
}

// expect registers the handler slot for a request about to be sent.
func (s *c15srv) expect(key string) {
	s.mu.Lock()
	s.handlers[key] = &c15Handler{key: key, cmd: make(chan string, 1), ack: make(chan string, 1), known: true}
	s.mu.Unlock()
}

type c15HState struct {
	Entered  int
	Returned bool
	Busy     bool
}

func (s *c15srv) hstate(key string) c15HState {
	s.mu.Lock()
	defer s.mu.Unlock()
	h := s.handlers[key]
	if h == nil {
		return c15HState{}
	}
	return c15HState{h.entered, h.returned, h.busy}
}

// command hands c to the running handler of key. It reports false when the
// handler is not in a state to take a command (not entered, returned, or still
// executing an earlier command). The result of W/R is returned after quiescence
// ("" while the command is still blocked).
func (s *c15srv) command(key, c string) (res string, ok bool) {
	s.mu.Lock()
	h := s.handlers[key]
	if h == nil || h.entered == 0 || h.returned || h.busy {
		s.mu.Unlock()
		return "", false
	}
	s.mu.Unlock()
	select {
	case h.cmd <- c:
	default:
		return "", false
	}
	synctest.Wait()
	if c == "F" || c == "P" {
		return "", true
	}
	select {
	case res = <-h.ack:
	default:
		s.mu.Lock()
		h.busy = true
		s.mu.Unlock()
	}
	return res, true
}

// send writes what the Framer produced since the last call as one network write.
func (s *c15srv) send() {
	if s.wbuf.Len() == 0 {
		return
	}
	s.sendRaw(s.wbuf.Bytes())
	s.wbuf.Reset()
}

func (s *c15srv) sendRaw(b []byte) {
	if _, err := s.cli.Write(b); err != nil {
		s.writeErr = true
	}
}

// settle waits for quiescence and returns the frames the server wrote.
func (s *c15srv) settle() []c15Frame {
	synctest.Wait()
	return s.drain()
}

func (s *c15srv) drain() []c15Frame {
	var data []byte
	var tmp [8192]byte
	for {
		n, err := s.cli.Read(tmp[:])
		data = append(data, tmp[:n]...)
		if err != nil {
			if err == io.EOF {
				s.closed = true
			}
			break
		}
		if n == 0 {
			break
		}
	}
	fs := s.wire.feed(data, s.step)
	s.frames = append(s.frames, fs...)
	s.step++
	return fs
}

func (s *c15srv) encode(fields ...string) []byte {
	s.hbuf.Reset()
	for i := 0; i+1 < len(fields); i += 2 {
		s.henc.WriteField(hpack.HeaderField{Name: fields[i], Value: fields[i+1]})
	}
	return append([]byte(nil), s.hbuf.Bytes()...)
}

// finish ends the case: all handlers return, the client hangs up.
func (s *c15srv) finish() {
	s.mu.Lock()
	for _, h := range s.handlers {
		if h.known {
			h.known = false
			close(h.cmd)
		}
	}
	s.mu.Unlock()
	s.cli.Close()
	synctest.Wait()
	// let the GOAWAY/shutdown timers run out so that no goroutine is left
	time.Sleep(2 * time.Second)
	synctest.Wait()
}

func (s *c15srv) panicList() []string {
	s.mu.Lock()
	defer s.mu.Unlock()
	return append([]string(nil), s.panics...)
}

// c15Malformed is the set of requests that must be rejected. Kind "conn:*" are
// connection-specific fields (RFC 9113 §8.2.2), for which the server answers
// with an HTTP 400 response instead of resetting the stream.
var c15Malformed = map[string]func(id string) []string{
	"upper":      func(id string) []string { return []string{":method", "GET", ":scheme", "https", ":authority", "h", ":path", "/", "X-Upper", "v", "x-id", id} },
	"upperA":     func(id string) []string { return []string{":method", "GET", ":scheme", "https", ":authority", "h", ":path", "/", "a-A", "v", "x-id", id} },
	"upperZ":     func(id string) []string { return []string{":method", "GET", ":scheme", "https", ":authority", "h", ":path", "/", "z-Z", "v", "x-id", id} },
	"badname":    func(id string) []string { return []string{":method", "GET", ":scheme", "https", ":authority", "h", ":path", "/", "a b", "v", "x-id", id} },
	"badvalue":   func(id string) []string { return []string{":method", "GET", ":scheme", "https", ":authority", "h", ":path", "/", "x-v", "a\nb", "x-id", id} },
	"pseudolast": func(id string) []string { return []string{":method", "GET", ":scheme", "https", ":authority", "h", "x-id", id, ":path", "/"} },
	"nomethod":   func(id string) []string { return []string{":scheme", "https", ":authority", "h", ":path", "/", "x-id", id} },
	"nopath":     func(id string) []string { return []string{":method", "GET", ":scheme", "https", ":authority", "h", "x-id", id} },
	"noscheme":   func(id string) []string { return []string{":method", "GET", ":authority", "h", ":path", "/", "x-id", id} },
	"badscheme":  func(id string) []string { return []string{":method", "GET", ":scheme", "ftp", ":authority", "h", ":path", "/", "x-id", id} },
	"duppath":    func(id string) []string { return []string{":method", "GET", ":scheme", "https", ":authority", "h", ":path", "/", ":path", "/b", "x-id", id} },
	"dupmethod":  func(id string) []string { return []string{":method", "GET", ":method", "POST", ":scheme", "https", ":authority", "h", ":path", "/", "x-id", id} },
	"badpath":    func(id string) []string { return []string{":method", "GET", ":scheme", "https", ":authority", "h", ":path", "noslash", "x-id", id} },
	"emptypath":  func(id string) []string { return []string{":method", "GET", ":scheme", "https", ":authority", "h", ":path", "", "x-id", id} },
	"status":     func(id string) []string { return []string{":method", "GET", ":scheme", "https", ":authority", "h", ":path", "/", ":status", "200", "x-id", id} },
	"unkpseudo":  func(id string) []string { return []string{":method", "GET", ":scheme", "https", ":authority", "h", ":path", "/", ":foo", "bar", "x-id", id} },
	"userinfo":   func(id string) []string { return []string{":method", "GET", ":scheme", "https", ":authority", "u@h", ":path", "/", "x-id", id} },
	"conn:connection": func(id string) []string { return []string{":method", "GET", ":scheme", "https", ":authority", "h", ":path", "/", "connection", "close", "x-id", id} },
	"conn:te":         func(id string) []string { return []string{":method", "GET", ":scheme", "https", ":authority", "h", ":path", "/", "te", "gzip", "x-id", id} },
	"conn:transfer":   func(id string) []string { return []string{":method", "GET", ":scheme", "https", ":authority", "h", ":path", "/", "transfer-encoding", "chunked", "x-id", id} },
	"conn:keepalive":  func(id string) []string { return []string{":method", "GET", ":scheme", "https", ":authority", "h", ":path", "/", "keep-alive", "timeout=5", "x-id", id} },
	"conn:proxyconn":  func(id string) []string { return []string{":method", "GET", ":scheme", "https", ":authority", "h", ":path", "/", "proxy-connection", "keep-alive", "x-id", id} },
	"conn:upgrade":    func(id string) []string { return []string{":method", "GET", ":scheme", "https", ":authority", "h", ":path", "/", "upgrade", "h2c", "x-id", id} },
}

func c15ValidFields(id string) []string {
	return []string{":method", "POST", ":scheme", "https", ":authority", "h", ":path", "/" + id, "te", "trailers", "x-id", id}
}

// c15Yield stops a generator once the internal deadline has passed (the check
// is made here because every shard sees every generated case).
func c15Yield[T any](c *vx.Ctx, yield func(T) bool) func(T) bool {
	n := 0
	return func(x T) bool {
		n++
		if n&127 == 0 && c.Expired() {
			return false
		}
		return yield(x)
	}
}

