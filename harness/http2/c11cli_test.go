//go:build !(go1.27 && !http2legacy)

package http2_test

// Client part of C11 on the h2cli harness (runner in c10cli_test.go, enforce mode).

import "golang.org/x/net/internal/zzverif/vx"

func c11cliRunParts(c *vx.Ctx) {
	c.Rule("EV, client part: Transport with per-stream receive window 8 or 600 (stream boundary) or connection receive buffer 65535 (window 131070) pre-filled by seven 16384-byte frames (connection boundary); every event sequence of depth 1..D after the seed over {REQ (<=2 GETs), response HEADERS, unpadded DATA(stream, len = w-1 | w | w+1 relative to the monitor's current min(stream, connection) window w, and len 1, 0), in the */padded parts also PADDED DATA whose whole frame payload is w-1 | w | w+1 with pad-length byte + padding = 1 | 3 | 256 bytes of it and fixed 1-byte-payload frames with pad length 1 | 255 (same alphabet as the server part), application Read(n), Body.Close}; the monitor debits the whole frame payload; an out-of-window frame ends the sequence; oracle: DATA inside both advertised windows is never answered with FLOW_CONTROL_ERROR and is delivered to Response.Body in order (final drain); DATA beyond a window is answered with GOAWAY or RST_STREAM carrying FLOW_CONTROL_ERROR and Reads never return more than the in-window prefix")
	small := c09cliCfg{StrWin: 8}
	connB := c09cliCfg{ConnWin: 65535}
	pre := "D(1,16384,0,0)"
	seedStream := []string{"REQ(0)", "RESP(1,-1,0)"}
	seedConn := []string{"REQ(0)", "RESP(1,-1,0)", pre, pre, pre, pre, pre, pre, pre}
	seedConn2 := []string{"REQ(0)", "REQ(0)", "RESP(1,-1,0)", "RESP(3,-1,0)", pre, "D(3,16384,0,0)", pre, "D(3,16384,0,0)", pre, "D(3,16384,0,0)", pre}
	d := [][3]int64{{1, 0, 0}, {0, 0, 0}}
	rel := []int64{-1, 0, 1}
	resp := [][2]int64{{-1, 0}}
	aSmall := c10cliAlphabet([]int64{0}, resp, d, []int64{1, 100}, []string{"C"}, rel)
	aConn := c10cliAlphabet(nil, nil, d, []int64{1, 100, 20000}, []string{"C"}, rel)
	// padded alphabets: as on the server part (c11srvParts)
	mid := c09cliCfg{StrWin: 600}
	dPadS := [][3]int64{{1, 0, 0}, {0, 0, 0}, {1, 1, 0}}
	dPadL := [][3]int64{{1, 0, 0}, {0, 0, 0}, {1, 1, 0}, {1, 255, 0}}
	ovhS := []int64{1, 3}
	ovhL := []int64{1, 3, 256}
	pSmall := c11cliAlphabet([]int64{0}, resp, dPadS, []int64{1, 100}, []string{"C"}, rel, ovhS)
	pMid := c11cliAlphabet([]int64{0}, resp, dPadL, []int64{1, 1000}, []string{"C"}, rel, ovhL)
	pConn := c11cliAlphabet(nil, nil, dPadL, []int64{1, 100, 20000}, []string{"C"}, rel, ovhL)
	var parts []c10cliPart
	if c.Quick() {
		parts = []c10cliPart{
			{"cli/win8/one-response", small, seedStream, aSmall, 5},
			{"cli/conn131070/prefilled", connB, seedConn, aConn, 4},
			{"cli/conn131070/prefilled-two-streams", connB, seedConn2, aConn, 3},
			{"cli/win8/one-response/padded", small, seedStream, pSmall, 4},
			{"cli/win600/one-response/padded", mid, seedStream, pMid, 3},
			{"cli/conn131070/prefilled/padded", connB, seedConn, pConn, 3},
			{"cli/conn131070/prefilled-two-streams/padded", connB, seedConn2, pConn, 2},
		}
	} else {
		parts = []c10cliPart{
			{"cli/win8/empty", small, nil, aSmall, 7},
			{"cli/win8/one-response", small, seedStream, aSmall, 6},
			{"cli/conn131070/prefilled", connB, seedConn, aConn, 5},
			{"cli/conn131070/prefilled-two-streams", connB, seedConn2, aConn, 4},
			{"cli/win8/one-response/padded", small, seedStream, pSmall, 5},
			{"cli/win600/one-response/padded", mid, seedStream, pMid, 4},
			{"cli/conn131070/prefilled/padded", connB, seedConn, pConn, 4},
			{"cli/conn131070/prefilled-two-streams/padded", connB, seedConn2, pConn, 3},
		}
	}
	c10cliRunPartList(c, c10sMode{id: "C11", enforce: true}, parts)
}

// c11cliAlphabet is c10cliAlphabet plus, per stream, the PADDED
// boundary-relative frames DRP(s, rel, ovh) (see c10Frame).
func c11cliAlphabet(reqKinds []int64, resp [][2]int64, data [][3]int64, reads []int64, extras []string, rel, ovhs []int64) []c08srvEv {
	var a []c08srvEv
	for _, ev := range c10cliAlphabet(reqKinds, resp, data, nil, nil, rel) {
		a = append(a, ev)
		if ev.K == "DR" && ev.arg(1) == rel[len(rel)-1] {
			for _, o := range ovhs {
				for _, r := range rel {
					a = append(a, c08srvEv{K: "DRP", A: []int64{ev.arg(0), r, o, 0}})
				}
			}
		}
	}
	return append(a, c10cliAlphabet(nil, nil, nil, reads, extras, nil)...)
}
