//go:build !(go1.27 && !http2legacy)

package http2_test

// Client part of C11 on the h2cli harness (runner in c10cli_test.go, enforce mode).

import "golang.org/x/net/internal/zzverif/vx"

func c11cliRunParts(c *vx.Ctx) {
	c.Rule("EV, client part: Transport with per-stream receive window 8 or 600 (stream boundary) or connection receive buffer 65535 (window 131070) pre-filled by seven 16384-byte frames (connection boundary); every event sequence of depth 1..D after the seed over {REQ (<=2 GETs), response HEADERS, unpadded DATA(stream, len = w-1 | w | w+1 relative to the monitor's current min(stream, connection) window w, and len 1, 0), in the */padded parts also PADDED DATA whose whole frame payload is w-1 | w | w+1 with pad-length byte + padding = 1 | 3 | 256 bytes of it and fixed 1-byte-payload frames with pad length 1 | 255 (same alphabet as the server part), application Read(n), Body.Close}; the monitor debits the whole frame payload; an out-of-window frame ends the sequence; oracle: DATA inside both advertised windows is never answered with FLOW_CONTROL_ERROR and is delivered to Response.Body in order (final drain); DATA beyond a window is answered with GOAWAY or RST_STREAM carrying FLOW_CONTROL_ERROR and Reads never return more than the in-window prefix")
	c.Rule("EV, client part, */prefilled-other-stream/* parts (connection window on streams that take no DATA): connection window 131070 pre-filled to 16382 by seven unread 16384-byte frames on stream 3 while stream 1 has no response yet (part cancel) or had its response body closed, i.e. was reset and forgotten by the Transport (part body-closed); every event sequence of depth 1..D after the seed over {response HEADERS, fixed DATA of 4 bytes (also on closed streams) | 1 | 0 | 0 with END_STREAM, DR as above on open streams, DRC(stream, len = w-1 | w | w+1 relative to the monitor's current CONNECTION window w alone) on a stream the client opened that takes no DATA (any more): cancelled or body closed or reset by the client for a protocol error (in-flight DATA after the client's RST_STREAM, legal by RFC 9113 5.1), before the response HEADERS, after END_STREAM, after the server's own RST_STREAM, application Read(n), Body.Close, request cancel, server RST_STREAM}; oracle: a DRC frame beyond the connection window on a stream the client has reset is answered with FLOW_CONTROL_ERROR (GOAWAY, read-loop error, or RST_STREAM of that stream); on a stream where the frame also violates the stream state machine (before HEADERS, after END_STREAM, after the server's RST_STREAM) any connection error is accepted, a connection that carries on is not; a DRC frame inside the connection window and the stream's last advertised window is never answered with FLOW_CONTROL_ERROR (the monitor credits the WINDOW_UPDATEs that return the discarded bytes, so later frames are sized against the refunded window)")
	c.Rule("EV, client part, advertised windows and aggregate parts: the windows the monitor holds the Transport to are derived from the wire alone, connection = protocol default 65535 + every WINDOW_UPDATE(0) the client sent (the preface one included), stream = the client's SETTINGS_INITIAL_WINDOW_SIZE + WINDOW_UPDATE(stream), minus the whole payload of every DATA frame sent; configuration only sizes the generator's pruning model. Parts cli/conn131070-str70000/* and cli/conn131070-str65535/*: connection receive buffer 65535 (advertised window 131070) with per-stream windows of 70000 or 65535, so the connection window is reachable only by the aggregate of unread DATA on two streams (2 x 65535 fills it to exactly 0 together with both stream windows); seeds pre-fill both streams with 16384-byte frames (4+3, resp. 3+3) that nobody reads, then every sequence of depth 1..D over the unpadded alphabet above (DR = w-1 | w | w+1 relative to the smaller of the stream's and the connection's advertised window, Read, Body.Close); part */two-responses has no pre-filling seed and no Read/Close at all (no refunds): every interleaving of full 16384-byte DATA frames on the two streams plus the boundary-relative frames once the smaller window is within one frame, up to the depth that reaches and crosses the advertised connection window (8 frames). Oracle addition for every client part: a DATA frame inside both advertised windows must not make the Transport fail the connection with FLOW_CONTROL_ERROR either (the Transport does not flush its GOAWAY, so the error its read loop ended with, which fails every in-flight request, is consulted in addition to the wire)")
	small := c09cliCfg{StrWin: 8}
	connB := c09cliCfg{ConnWin: 65535}
	pre := "D(1,16384,0,0)"
	seedStream := []string{"REQ(0)", "RESP(1,-1,0)"}
	seedConn := []string{"REQ(0)", "RESP(1,-1,0)", pre, pre, pre, pre, pre, pre, pre}
	seedConn2 := []string{"REQ(0)", "REQ(0)", "RESP(1,-1,0)", "RESP(3,-1,0)", pre, "D(3,16384,0,0)", pre, "D(3,16384,0,0)", pre, "D(3,16384,0,0)", pre}
	d := [][3]int64{{1, 0, 0}, {0, 0, 0}}
	rel := []int64{-1, 0, 1}
	resp := [][2]int64{{-1, 0}}
	aSmall := c10cliAlphabet([]int64{0}, resp, d, []int64{1, 100}, []string{"C"}, rel)
	aConn := c10cliAlphabet(nil, nil, d, []int64{1, 100, 20000}, []string{"C"}, rel)
	// padded alphabets: as on the server part (c11srvParts)
	mid := c09cliCfg{StrWin: 600}
	dPadS := [][3]int64{{1, 0, 0}, {0, 0, 0}, {1, 1, 0}}
	dPadL := [][3]int64{{1, 0, 0}, {0, 0, 0}, {1, 1, 0}, {1, 255, 0}}
	ovhS := []int64{1, 3}
	ovhL := []int64{1, 3, 256}
	pSmall := c11cliAlphabet([]int64{0}, resp, dPadS, []int64{1, 100}, []string{"C"}, rel, ovhS)
	pMid := c11cliAlphabet([]int64{0}, resp, dPadL, []int64{1, 1000}, []string{"C"}, rel, ovhL)
	pConn := c11cliAlphabet(nil, nil, dPadL, []int64{1, 100, 20000}, []string{"C"}, rel, ovhL)
	// Connection window on streams that take no DATA (any more): the connection
	// window is pre-filled by unread data on stream 3; stream 1 is cancelled /
	// its body closed (by an event or in the seed), or has no response yet, and
	// then receives DATA sized against the connection window alone (DRC).
	seedOther := []string{"REQ(0)", "REQ(0)", "RESP(3,-1,0)", "D(3,16384,0,0)", "D(3,16384,0,0)", "D(3,16384,0,0)", "D(3,16384,0,0)", "D(3,16384,0,0)", "D(3,16384,0,0)", "D(3,16384,0,0)"}
	seedClosed := []string{"REQ(0)", "REQ(0)", "RESP(1,-1,0)", "RESP(3,-1,0)", "D(3,16384,0,0)", "D(3,16384,0,0)", "D(3,16384,0,0)", "D(3,16384,0,0)", "D(3,16384,0,0)", "D(3,16384,0,0)", "D(3,16384,0,0)", "C(1)"}
	// D(s,4,0,0) is the fixed small frame the generator also sends on closed
	// streams; D(s,0,0,1) ends the response (empty DATA + END_STREAM).
	dClosed := [][3]int64{{4, 0, 0}, {1, 0, 0}, {0, 0, 0}, {0, 0, 1}}
	aClosed := c11cliClosedAlphabet(resp, dClosed, []int64{1, 100, 20000}, []string{"C", "CANCEL", "RST"}, rel)
	// Connection window reachable only by the aggregate of unread DATA on several
	// streams: per-stream windows smaller than the connection window, nobody
	// reads unless an R/C event says so (no refunds otherwise).
	//  - stream 70000 (2 x 70000 > 131070): after the seed (4 + 3 frames of 16384)
	//    stream 1 has 4464 left, stream 3 20848, the connection 16382: on stream 3
	//    the connection window is the smaller one, on stream 1 the stream window.
	//  - stream 65535 (2 x 65535 == 131070): after the seed (3 + 3 frames) each
	//    stream has 16383 left and the connection 32766, so filling both streams
	//    fills the advertised connection window to exactly 0.
	aggA := c09cliCfg{ConnWin: 65535, StrWin: 70000}
	aggB := c09cliCfg{ConnWin: 65535, StrWin: 65535}
	pre3 := "D(3,16384,0,0)"
	// no prefilling seed, nobody reads: every interleaving of full 16384-byte
	// frames on the two streams, boundary-relative frames once the smaller of
	// the two windows is within one frame
	aAgg := c10cliAlphabet(nil, nil, [][3]int64{{16384, 0, 0}}, nil, nil, rel)
	seedAggA := []string{"REQ(0)", "REQ(0)", "RESP(1,-1,0)", "RESP(3,-1,0)", pre, pre3, pre, pre3, pre, pre3, pre}
	seedAggB := []string{"REQ(0)", "REQ(0)", "RESP(1,-1,0)", "RESP(3,-1,0)", pre, pre3, pre, pre3, pre, pre3}
	var parts []c10cliPart
	if c.Quick() {
		parts = []c10cliPart{
			{"cli/win8/one-response", small, seedStream, aSmall, 5},
			{"cli/conn131070/prefilled", connB, seedConn, aConn, 4},
			{"cli/conn131070/prefilled-two-streams", connB, seedConn2, aConn, 3},
			{"cli/conn131070-str70000/prefilled-two-streams", aggA, seedAggA, aConn, 3},
			{"cli/conn131070-str65535/prefilled-two-streams", aggB, seedAggB, aConn, 3},
			{"cli/conn131070-str70000/two-responses", aggA, seedAggA[:4], aAgg, 8},
			{"cli/conn131070/prefilled-other-stream/cancel", connB, seedOther, aClosed, 3},
			{"cli/conn131070/prefilled-other-stream/body-closed", connB, seedClosed, aClosed, 3},
			{"cli/win8/one-response/padded", small, seedStream, pSmall, 4},
			{"cli/win600/one-response/padded", mid, seedStream, pMid, 3},
			{"cli/conn131070/prefilled/padded", connB, seedConn, pConn, 3},
			{"cli/conn131070/prefilled-two-streams/padded", connB, seedConn2, pConn, 2},
		}
	} else {
		parts = []c10cliPart{
			{"cli/win8/empty", small, nil, aSmall, 7},
			{"cli/win8/one-response", small, seedStream, aSmall, 6},
			{"cli/conn131070/prefilled", connB, seedConn, aConn, 5},
			{"cli/conn131070/prefilled-two-streams", connB, seedConn2, aConn, 4},
			{"cli/conn131070-str70000/prefilled-two-streams", aggA, seedAggA, aConn, 4},
			{"cli/conn131070-str65535/prefilled-two-streams", aggB, seedAggB, aConn, 4},
			{"cli/conn131070-str70000/two-responses", aggA, seedAggA[:4], aAgg, 9},
			{"cli/conn131070/prefilled-other-stream/cancel", connB, seedOther, aClosed, 4},
			{"cli/conn131070/prefilled-other-stream/body-closed", connB, seedClosed, aClosed, 5},
			{"cli/win8/one-response/padded", small, seedStream, pSmall, 5},
			{"cli/win600/one-response/padded", mid, seedStream, pMid, 4},
			{"cli/conn131070/prefilled/padded", connB, seedConn, pConn, 4},
			{"cli/conn131070/prefilled-two-streams/padded", connB, seedConn2, pConn, 3},
		}
	}
	c10cliRunPartList(c, c10sMode{id: "C11", enforce: true}, parts)
}

// c11cliAlphabet is c10cliAlphabet plus, per stream, the PADDED
// boundary-relative frames DRP(s, rel, ovh) (see c10Frame).
func c11cliAlphabet(reqKinds []int64, resp [][2]int64, data [][3]int64, reads []int64, extras []string, rel, ovhs []int64) []c08srvEv {
	var a []c08srvEv
	for _, ev := range c10cliAlphabet(reqKinds, resp, data, nil, nil, rel) {
		a = append(a, ev)
		if ev.K == "DR" && ev.arg(1) == rel[len(rel)-1] {
			for _, o := range ovhs {
				for _, r := range rel {
					a = append(a, c08srvEv{K: "DRP", A: []int64{ev.arg(0), r, o, 0}})
				}
			}
		}
	}
	return append(a, c10cliAlphabet(nil, nil, nil, reads, extras, nil)...)
}

// c11cliClosedAlphabet is c10cliAlphabet plus, per stream, the frames
// DRC(s, rel): unpadded DATA of length w+rel, w = the monitor's current
// CONNECTION window alone, sent on a stream that takes no DATA (any more) —
// cancelled / body closed (reset and forgotten by the Transport), no response
// HEADERS yet, ended or reset by the server (see c10cDRC) — plus request cancel.
func c11cliClosedAlphabet(resp [][2]int64, data [][3]int64, reads []int64, extras []string, rel []int64) []c08srvEv {
	a := c10cliAlphabet(nil, resp, data, nil, nil, rel)
	for _, id := range []int64{1, 3} {
		for _, r := range rel {
			a = append(a, c08srvEv{K: "DRC", A: []int64{id, r}})
		}
	}
	return append(a, c10cliAlphabet(nil, nil, nil, reads, extras, nil)...)
}
