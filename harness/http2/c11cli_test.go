//go:build !(go1.27 && !http2legacy)

package http2_test

import "golang.org/x/net/internal/zzverif/vx"

// placeholder until the client harness exists
func c11cliRunParts(c *vx.Ctx) {}
