package trace

import (
	"fmt"
	"strconv"
	"strings"
	"testing"
	"time"

	"golang.org/x/net/internal/timeseries"
	"golang.org/x/net/internal/zzverif/vx"
)

// C61 — time series keep an exact total of all observations.
//
// SEQ (depth-bounded, no deduplication: the i-th observation of a history has
// the value 2^i, so every subset of observations has a distinct sum and two
// different histories never reach the same state) on the real
// timeseries.TimeSeries and timeseries.MinuteHourSeries with a harness clock,
// once with timeseries.Float and once with this package's histogram as the
// Observable. The reference model is the list of (time, index) pairs.
//
// The harness lives in package trace because the histogram is private to it;
// the time series are driven through their exported API.

// c61R is the reference instant: a multiple of 16 weeks since the Unix epoch,
// hence a bucket boundary of every level; all observation times are odd
// multiples of half a second away from it (mid-bucket at every level).
const c61R = int64(176*16*7*24*3600) * int64(time.Second)

const c61Half = int64(time.Second / 2)

type c61Op struct {
	K byte  // 'a' AddWithTime, 't' Total, 'l' set clock + Latest/LatestBuckets, 'c' Clear
	H int64 // offset from c61R in half seconds (a, l)
}

func (o c61Op) String() string {
	switch o.K {
	case 'a':
		return fmt.Sprintf("add@%+gs", float64(o.H)/2)
	case 'l':
		return fmt.Sprintf("latest@%+gs", float64(o.H)/2)
	case 't':
		return "total"
	}
	return "clear"
}

func (o c61Op) MarshalJSON() ([]byte, error) { return []byte(strconv.Quote(o.String())), nil }

func (o *c61Op) UnmarshalJSON(b []byte) error {
	s, err := strconv.Unquote(string(b))
	if err != nil {
		return err
	}
	switch {
	case s == "total":
		*o = c61Op{K: 't'}
	case s == "clear":
		*o = c61Op{K: 'c'}
	case strings.HasPrefix(s, "add@"), strings.HasPrefix(s, "latest@"):
		i := strings.Index(s, "@")
		f, err := strconv.ParseFloat(strings.TrimSuffix(s[i+1:], "s"), 64)
		if err != nil {
			return err
		}
		*o = c61Op{K: s[0], H: int64(f * 2)}
	default:
		return fmt.Errorf("bad op %q", s)
	}
	return nil
}

type c61Clock struct{ ns int64 }

func (c *c61Clock) Time() time.Time { return time.Unix(0, c.ns) }

type c61Series interface {
	AddWithTime(timeseries.Observable, time.Time)
	Total() timeseries.Observable
	Latest(level, num int) timeseries.Observable
	LatestBuckets(level, num int) []timeseries.Observable
	Range(start, finish time.Time) timeseries.Observable
	ComputeRange(start, finish time.Time, num int) []timeseries.Observable
	Clear()
}

// c61Agg is everything that is compared about an Observable.
type c61Agg struct {
	Sum   float64
	Count int64
	B     [3]int64 // histogram bucket counts 0..1, [2] = everything else
	SumSq float64
}

type c61Cfg struct {
	name  string
	sizes []int64 // level resolutions, ns
	n     int     // buckets per level
	hist  bool
	mh    bool
	adds  []int64
	clks  []int64
}

type c61Obs struct {
	t   int64
	idx int
}

type c61State struct {
	cfg   *c61Cfg
	clk   *c61Clock
	ser   c61Series
	obs   []c61Obs
	nAdds int
	end0  int64 // model: end of the newest level-0 bucket (0 = nothing seen since Clear)
	maxT  int64
	pend  int64 // label only: the instant the front (pending) bucket ends
	ooo   bool  // some observation was older than an earlier one
	skew  bool  // some observation was newer than every earlier one yet older than the clock-advanced front bucket
	clr   bool
}

func c61Ceil(x, s int64) int64 { return (x + s - 1) / s * s }

func (s *c61State) trigger() string {
	switch {
	case s.skew:
		return "data-behind-clock"
	case s.ooo:
		return "out-of-order"
	case s.clr:
		return "after-clear"
	}
	return "in-order"
}

func (s *c61State) mkObs(idx int) timeseries.Observable {
	if s.cfg.hist {
		h := new(histogram)
		h.addMeasurement(int64(1) << uint(idx%2)) // 1, 2, 1, 2, …: histogram buckets 0 and 1, so single-value and bucketed forms meet within three observations
		return h
	}
	f := timeseries.Float(float64(uint64(1) << uint(idx)))
	return &f
}

func (s *c61State) measure(o timeseries.Observable) c61Agg {
	var a c61Agg
	switch v := o.(type) {
	case *timeseries.Float:
		a.Sum = v.Value()
	case *histogram:
		a.Sum = float64(v.sum)
		a.SumSq = v.sumOfSquares
		a.Count = v.total()
		add := func(i int, n int64) {
			if i > 2 {
				i = 2
			}
			a.B[i] += n
		}
		if v.valueCount > 0 {
			add(v.value, v.valueCount)
		}
		for i, n := range v.buckets {
			add(i, n)
		}
	default:
		panic(fmt.Sprintf("c61 harness: unexpected observable %T", o))
	}
	return a
}

// want is the reference aggregate of the observations with lo < t <= hi.
func (s *c61State) want(lo, hi int64) c61Agg {
	var a c61Agg
	for _, o := range s.obs {
		if o.t <= lo || o.t > hi {
			continue
		}
		if s.cfg.hist {
			m := int64(1) << uint(o.idx%2)
			a.Sum += float64(m)
			a.SumSq += float64(m) * float64(m)
			a.Count++
			a.B[o.idx%2]++
		} else {
			a.Sum += float64(uint64(1) << uint(o.idx))
		}
	}
	return a
}

func (s *c61State) ends() []int64 {
	e := make([]int64, len(s.cfg.sizes))
	for l, sz := range s.cfg.sizes {
		e[l] = c61Ceil(s.end0, sz)
	}
	return e
}

func c61T(ns int64) time.Time { return time.Unix(0, ns) }

func c61Rel(ns int64) string { return fmt.Sprintf("R%+gs", float64(ns-c61R)/1e9) }

func (s *c61State) cmp(w *vx.W, clause string, got timeseries.Observable, lo, hi int64, descf string, da ...any) bool {
	if got == nil {
		w.Failf("C61/"+clause+"/nil-result", "%s [%s]: %s returned a nil Observable", s.cfg.name, s.hist(), fmt.Sprintf(descf, da...))
		return false
	}
	g, want := s.measure(got), s.want(lo, hi)
	if g != want {
		w.Failf("C61/"+clause+"/"+s.trigger(), "%s: %s over (%s, %s] = %+v, the observations added in it give %+v; history %s", s.cfg.name, fmt.Sprintf(descf, da...), c61Rel(lo), c61Rel(hi), g, want, s.hist())
		return false
	}
	return true
}

func (s *c61State) hist() string {
	var b strings.Builder
	for _, o := range s.obs {
		fmt.Fprintf(&b, "#%d@%s ", o.idx, c61Rel(o.t))
	}
	return strings.TrimSpace(b.String())
}

const c61Inf = int64(1) << 62

func (s *c61State) apply(w *vx.W, op c61Op) bool {
	switch op.K {
	case 'a':
		t := c61R + op.H*c61Half
		s.ser.AddWithTime(s.mkObs(s.nAdds), c61T(t))
		// labels (which abstract situation a later mismatch arose in)
		if len(s.obs) > 0 && t < s.maxT {
			s.ooo = true
		}
		ct := c61Ceil(t, s.cfg.sizes[0])
		if t > s.pend {
			if s.end0 != 0 && ct < s.end0 {
				s.skew = true
			}
			s.pend = max(ct, s.end0)
		}
		s.obs = append(s.obs, c61Obs{t, s.nAdds})
		s.nAdds++
		s.maxT = max(s.maxT, t)
		s.end0 = max(s.end0, ct)
		w.Outcome("add")
		return true
	case 't':
		w.Outcome("total")
		return s.cmp(w, "total", s.ser.Total(), -c61Inf, c61Inf, "Total()")
	case 'c':
		s.ser.Clear()
		s.obs, s.end0, s.maxT, s.pend = nil, 0, 0, 0
		s.ooo, s.skew, s.clr = false, false, true
		w.Outcome("clear")
		return true
	case 'l':
		s.clk.ns = c61R + op.H*c61Half
		return s.latest(w)
	}
	panic("c61 harness: bad op")
}

// latest compares Latest / LatestBuckets of every level at the current clock.
func (s *c61State) latest(w *vx.W) bool {
	s.end0 = max(s.end0, c61Ceil(s.clk.ns, s.cfg.sizes[0]))
	ends := s.ends()
	for l, sz := range s.cfg.sizes {
		for _, k := range []int{1, 2, s.cfg.n} {
			got := s.ser.Latest(l, k)
			if !s.cmp(w, "latest", got, ends[l]-int64(k)*sz, ends[l], "Latest(%d,%d) at clock R%+gs", l, k, float64(s.clk.ns-c61R)/1e9) {
				return false
			}
		}
		bs := s.ser.LatestBuckets(l, 3)
		if len(bs) != 3 {
			w.Failf("C61/latest-buckets/length", "%s: LatestBuckets(%d,3) returned %d values", s.cfg.name, l, len(bs))
			return false
		}
		for i, b := range bs {
			if !s.cmp(w, "latest-buckets", b, ends[l]-int64(i+1)*sz, ends[l]-int64(i)*sz, "LatestBuckets(%d,3)[%d] at clock R%+gs", l, i, float64(s.clk.ns-c61R)/1e9) {
				return false
			}
		}
	}
	if mh, ok := s.ser.(*timeseries.MinuteHourSeries); ok {
		if !s.cmp(w, "latest", mh.Minute(), ends[0]-60*s.cfg.sizes[0], ends[0], "Minute()") ||
			!s.cmp(w, "latest", mh.Hour(), ends[1]-60*s.cfg.sizes[1], ends[1], "Hour()") {
			return false
		}
	}
	w.Outcome("latest")
	return true
}

// final is the destructive end-of-history check: Total, then every
// bucket-aligned range question that lies inside a level's retained window.
func (s *c61State) final(w *vx.W) {
	if !s.cmp(w, "total", s.ser.Total(), -c61Inf, c61Inf, "Total()") {
		return
	}
	if s.end0 == 0 {
		return // nothing seen since Clear: no window is defined
	}
	ends := s.ends()
	n := int64(s.cfg.n)
	for l, sz := range s.cfg.sizes {
		ws := ends[l] - n*sz // start of the level's retained window
		// a range is answered from level l iff its start lies in l's window and before the window of level l-1
		upper := ends[l]
		if l > 0 {
			upper = ends[l-1] - n*s.cfg.sizes[l-1]
		}
		has := false
		for _, o := range s.obs {
			if o.t > ws && o.t <= ends[l] {
				has = true
			}
		}
		// the whole window, as one value
		if !s.cmp(w, "range", s.ser.Range(c61T(ws), c61T(ends[l])), ws, ends[l], "Range(window of level %d)", l) {
			return
		}
		if !has {
			continue
		}
		// the whole window, one value per bucket, and in two halves
		for _, num := range []int{s.cfg.n, 2} {
			vals := s.ser.ComputeRange(c61T(ws), c61T(ends[l]), num)
			if len(vals) != num {
				w.Failf("C61/range/length", "%s: ComputeRange(..., %d) returned %d values", s.cfg.name, num, len(vals))
				return
			}
			step := n * sz / int64(num)
			for j, v := range vals {
				if !s.cmp(w, "range", v, ws+int64(j)*step, ws+int64(j+1)*step, "ComputeRange(window of level %d, %d)[%d]", l, num, j) {
					return
				}
			}
		}
		// ranges around every bucket that holds an observation
		for _, o := range s.obs {
			a := c61Ceil(o.t, sz) - sz
			if a < ws || a >= upper {
				continue
			}
			type rg struct{ lo, hi int64 }
			for _, r := range []rg{{a, a + sz}, {a - sz, a + sz}, {a, a + 2*sz}, {ws, a + sz}, {a, ends[l]}, {a - sz, a}, {a + sz, a + 2*sz}} {
				if r.lo < ws || r.lo >= upper || r.hi > ends[l] || r.hi <= r.lo {
					continue
				}
				if !s.cmp(w, "range", s.ser.Range(c61T(r.lo), c61T(r.hi)), r.lo, r.hi, "Range(level %d aligned)", l) {
					return
				}
			}
		}
	}
	w.Nontrivial()
}

func c61New(cfg *c61Cfg) *c61State {
	s := &c61State{cfg: cfg, clk: &c61Clock{ns: c61R - 300*24*3600*int64(time.Second)}}
	prov := timeseries.NewFloat
	if cfg.hist {
		prov = func() timeseries.Observable { return new(histogram) }
	}
	if cfg.mh {
		s.ser = timeseries.NewMinuteHourSeriesWithClock(prov, s.clk)
	} else {
		s.ser = timeseries.NewTimeSeriesWithClock(prov, s.clk)
	}
	return s
}

func c61Run(c *vx.Ctx, cfg *c61Cfg, depth int, totalOnly bool) {
	var ops []c61Op
	for _, h := range cfg.adds {
		ops = append(ops, c61Op{K: 'a', H: h})
	}
	ops = append(ops, c61Op{K: 't'})
	for _, h := range cfg.clks {
		ops = append(ops, c61Op{K: 'l', H: h})
	}
	ops = append(ops, c61Op{K: 'c'})
	vx.Seq(c, vx.SeqSpec[*c61State, c61Op]{
		Part:  cfg.name,
		New:   func() *c61State { return c61New(cfg) },
		Ops:   ops,
		Depth: depth,
		Apply: func(w *vx.W, s *c61State, op c61Op) bool {
			if totalOnly && op.K == 'l' {
				// boundary instants: only the clock-driven advance is exercised, bucket membership is not asserted
				s.clk.ns = c61R + op.H*c61Half
				s.ser.Latest(0, 1)
				return true
			}
			return s.apply(w, op)
		},
		Final: func(w *vx.W, s *c61State) {
			if totalOnly {
				if s.cmp(w, "total", s.ser.Total(), -c61Inf, c61Inf, "Total()") {
					w.Nontrivial()
				}
				return
			}
			s.final(w)
		},
	})
}

// ---- differential (metamorphic) part -------------------------------------
//
// Which of two adjacent buckets an observation stamped exactly on their common
// boundary belongs to is a convention of the implementation, so the reference
// list cannot say where such an observation has to be reported. Whatever the
// convention is, the property makes the answer to an aligned range question a
// function of the observations (time, value) alone: it may not depend on
// whether reads (Total, or a clock-driven Latest/LatestBuckets that rolls the
// buckets forward) happened between the AddWithTime calls, nor on the order in
// which the observations arrived. The differential part therefore runs every
// history on the real series and compares its buckets with those of twin
// series that received the same observations (a) without the interleaved reads
// and (b) without the reads and in order of their timestamps. All series are
// brought to the same, convention-independent window first: a final
// clock-driven read at a mid-bucket instant not earlier than anything seen.

type c61DAdd struct {
	t   int64
	idx int
}

type c61DState struct {
	cfg      *c61Cfg
	clk      *c61Clock
	ser      c61Series
	adds     []c61DAdd // observations since the last Clear, in arrival order
	path     []string  // the whole history, for messages
	nAdds    int
	maxH     int64 // latest instant of the whole history (observation or clock), in half seconds from R
	seen     bool
	readDiff bool // since the last Clear, a read was followed by an AddWithTime
	readPend bool
	clr      bool
}

func c61DObs(idx int) timeseries.Observable {
	f := timeseries.Float(float64(uint64(1) << uint(idx)))
	return &f
}

func (d *c61DState) see(h int64) {
	if !d.seen || h > d.maxH {
		d.maxH, d.seen = h, true
	}
}

func (d *c61DState) hist() string {
	var b strings.Builder
	for _, o := range d.adds {
		fmt.Fprintf(&b, "#%d@%s ", o.idx, c61Rel(o.t))
	}
	return strings.TrimSpace(b.String())
}

// trigger names the abstract situation: does the history (since Clear) hold an
// observation stamped exactly on a level-0 bucket boundary or not.
func (d *c61DState) trigger() string {
	t := "mid-bucket-instants"
	for _, o := range d.adds {
		if (o.t-c61R)%d.cfg.sizes[0] == 0 {
			t = "boundary-instant"
		}
	}
	return t
}

func (d *c61DState) apply(w *vx.W, op c61Op) bool {
	d.path = append(d.path, op.String())
	switch op.K {
	case 'a':
		t := c61R + op.H*c61Half
		d.ser.AddWithTime(c61DObs(d.nAdds), c61T(t))
		d.adds = append(d.adds, c61DAdd{t, d.nAdds})
		d.nAdds++
		d.see(op.H)
		if d.readPend {
			d.readDiff = true
		}
		w.Outcome("add")
	case 't':
		d.readPend = true
		w.Outcome("total")
		return d.total(w, d.ser.Total())
	case 'c':
		d.ser.Clear()
		d.adds, d.readDiff, d.readPend, d.clr = nil, false, false, true
		w.Outcome("clear")
	case 'l':
		d.clk.ns = c61R + op.H*c61Half
		d.see(op.H)
		d.readPend = true
		// both clock-driven entry points; the values are not judged here
		d.ser.Latest(0, 1)
		d.ser.LatestBuckets(len(d.cfg.sizes)-1, 1)
		w.Outcome("latest")
	default:
		panic("c61 harness: bad op")
	}
	return true
}

func (d *c61DState) total(w *vx.W, got timeseries.Observable) bool {
	f, ok := got.(*timeseries.Float)
	if !ok || f == nil {
		w.Failf("C61/total/nil-result", "%s: Total() returned %T", d.cfg.name, got)
		return false
	}
	var want float64
	for _, o := range d.adds {
		want += float64(uint64(1) << uint(o.idx))
	}
	if f.Value() != want {
		w.Failf("C61/total/"+d.trigger(), "%s: Total() = %v, the observations added give %v; history %s", d.cfg.name, f.Value(), want, d.hist())
		return false
	}
	return true
}

// c61Snap brings ser to the window ending at the clock instant fin (a
// clock-driven read) and returns, per level, the content of every bucket of
// the retained window (oldest first, by ComputeRange) followed by the three
// newest buckets as LatestBuckets reports them (newest first).
func c61Snap(cfg *c61Cfg, ser c61Series, clk *c61Clock, fin int64) ([][]float64, string) {
	clk.ns = fin
	ser.Latest(0, 1)
	out := make([][]float64, len(cfg.sizes))
	val := func(o timeseries.Observable) (float64, bool) {
		f, ok := o.(*timeseries.Float)
		if !ok || f == nil {
			return 0, false
		}
		return f.Value(), true
	}
	for l, sz := range cfg.sizes {
		end := c61Ceil(fin, sz)
		ws := end - int64(cfg.n)*sz
		vals := ser.ComputeRange(c61T(ws), c61T(end), cfg.n)
		lb := ser.LatestBuckets(l, 3)
		if len(vals) != cfg.n || len(lb) != 3 {
			return nil, fmt.Sprintf("level %d: ComputeRange(window, %d) returned %d values, LatestBuckets(%d,3) %d", l, cfg.n, len(vals), l, len(lb))
		}
		for _, o := range append(vals, lb...) {
			v, ok := val(o)
			if !ok {
				return nil, fmt.Sprintf("level %d: a result is %T", l, o)
			}
			out[l] = append(out[l], v)
		}
	}
	return out, ""
}

// c61Twin is a fresh series that receives the given observations and nothing else.
func c61Twin(cfg *c61Cfg, adds []c61DAdd, fin int64) ([][]float64, string) {
	s := c61New(cfg)
	for _, o := range adds {
		s.ser.AddWithTime(c61DObs(o.idx), c61T(o.t))
	}
	return c61Snap(cfg, s.ser, s.clk, fin)
}

func (d *c61DState) diff(w *vx.W, clause string, a, b [][]float64, fin int64, whatA, whatB string) bool {
	for l, sz := range d.cfg.sizes {
		end := c61Ceil(fin, sz)
		ws := end - int64(d.cfg.n)*sz
		for j := range a[l] {
			if a[l][j] == b[l][j] {
				continue
			}
			var where string
			if j < d.cfg.n {
				where = fmt.Sprintf("ComputeRange(window of level %d, %d)[%d] = bucket %s..%s", l, d.cfg.n, j, c61Rel(ws+int64(j)*sz), c61Rel(ws+int64(j+1)*sz))
			} else {
				k := j - d.cfg.n
				where = fmt.Sprintf("LatestBuckets(%d,3)[%d] = bucket %s..%s", l, k, c61Rel(end-int64(k+1)*sz), c61Rel(end-int64(k)*sz))
			}
			w.Failf("C61/"+clause+"/"+d.trigger(), "%s: history [%s], observations since Clear %s (#i is worth 2^i), all series finally read at clock %s: %s holds %v %s but %v %s", d.cfg.name, strings.Join(d.path, ", "), d.hist(), c61Rel(fin), where, a[l][j], whatA, b[l][j], whatB)
			return false
		}
	}
	return true
}

func (d *c61DState) final(w *vx.W) {
	if !d.total(w, d.ser.Total()) {
		return
	}
	if len(d.adds) == 0 {
		w.Outcome("diff-nothing-to-compare")
		return
	}
	// a mid-bucket instant (of every level) not earlier than anything seen
	fin := c61R + (d.maxH-((d.maxH%2)+2)%2)*c61Half + c61Half
	sorted := append([]c61DAdd(nil), d.adds...)
	inOrder := true
	for i := 1; i < len(sorted); i++ { // stable insertion sort by timestamp
		for j := i; j > 0 && sorted[j].t < sorted[j-1].t; j-- {
			sorted[j], sorted[j-1] = sorted[j-1], sorted[j]
			inOrder = false
		}
	}
	if !d.readDiff && !d.clr && inOrder {
		w.Outcome("diff-nothing-to-compare") // the history is its own twin
		return
	}
	real, msg := c61Snap(d.cfg, d.ser, d.clk, fin)
	if msg != "" {
		w.Failf("C61/range/length", "%s: %s; history %s", d.cfg.name, msg, d.hist())
		return
	}
	plain := real
	if d.readDiff || d.clr {
		plain, msg = c61Twin(d.cfg, d.adds, fin)
		if msg != "" {
			w.Failf("C61/range/length", "%s: %s; observations %s", d.cfg.name, msg, d.hist())
			return
		}
		clause, how := "read-independence", "in the series of the history, where reads (Total / clock-driven Latest, LatestBuckets) preceded later AddWithTime calls"
		if !d.readDiff {
			clause, how = "fresh-after-clear", "in the series of the history, which was used and cleared before"
		}
		if !d.diff(w, clause, real, plain, fin, how, "in a fresh series given only these AddWithTime calls") {
			return
		}
	}
	if !inOrder {
		ord, msg := c61Twin(d.cfg, sorted, fin)
		if msg != "" {
			w.Failf("C61/range/length", "%s: %s; observations %s in timestamp order", d.cfg.name, msg, d.hist())
			return
		}
		if !d.diff(w, "order-independence", plain, ord, fin, "when added in this order", "when added in order of their timestamps") {
			return
		}
		w.Outcome("diff-order-compared")
	} else {
		w.Outcome("diff-reads-compared")
	}
	w.Nontrivial()
}

func c61RunDiff(c *vx.Ctx, cfg *c61Cfg, depth int) {
	var ops []c61Op
	for _, h := range cfg.adds {
		ops = append(ops, c61Op{K: 'a', H: h})
	}
	for _, h := range cfg.clks {
		ops = append(ops, c61Op{K: 'l', H: h})
	}
	ops = append(ops, c61Op{K: 't'}, c61Op{K: 'c'})
	vx.Seq(c, vx.SeqSpec[*c61DState, c61Op]{
		Part: cfg.name,
		New: func() *c61DState {
			s := c61New(cfg)
			return &c61DState{cfg: cfg, clk: s.clk, ser: s.ser}
		},
		Ops:   ops,
		Depth: depth,
		Apply: func(w *vx.W, d *c61DState, op c61Op) bool { return d.apply(w, op) },
		Final: func(w *vx.W, d *c61DState) { d.final(w) },
	})
}

var (
	c61TsSizes = []int64{1e9, 10e9, 60e9, 600e9, 3600e9, 6 * 3600e9, 24 * 3600e9, 7 * 24 * 3600e9, 28 * 24 * 3600e9, 112 * 24 * 3600e9}
	c61MhSizes = []int64{1e9, 60e9}
)

func c61MhDepth(d int, hist bool) int {
	if hist {
		return d - 1
	}
	return d
}

func c61PM(hs ...int64) []int64 {
	var out []int64
	for _, h := range hs {
		out = append(out, h, -h)
	}
	return out
}

func TestVerif_C61(t *testing.T) {
	vx.Run(t, "C61", func(c *vx.Ctx) {
		const h1, d200 = 2*3600 + 1, 2*200*24*3600 + 1
		tsAdds := c61PM(1, 3, 127, 129, 141, h1, d200)   // ±0.5 s, 1.5 s, 63.5 s, 64.5 s, 70.5 s, 1 h+0.5 s, 200 d+0.5 s
		mhAdds := c61PM(1, 3, 119, 121, 141, h1, d200)   // the MinuteHourSeries keeps 60 buckets
		clks := []int64{1, 127, 141, h1}                 // clock instants for Latest: R+0.5 s, +63.5 s, +70.5 s, +1 h
		bndAdds := []int64{0, 2, -2, 128, -128, 1, 7200} // exact bucket boundaries (and one mid-bucket instant)
		// differential part: instants exactly on bucket boundaries next to mid-bucket ones
		tsDiffAdds := []int64{0, 2, -2, 1, -1, 3, 20, -128, -127, 7200}  // R, R±1 s, R±0.5 s, R+1.5 s, R+10 s, R-64 s, R-63.5 s, R+1 h
		tsDiffClks := []int64{1, 2, 4, 21, 128}                          // R+0.5 s, R+1 s, R+2 s, R+10.5 s, R+64 s
		mhDiffAdds := []int64{0, 2, -2, 1, -1, 3, 120, -120, -119, 7200} // R+60 s, R-60 s, R-59.5 s for the 60-bucket levels
		mhDiffClks := []int64{1, 2, 4, 121, 120}
		dTS := vx.Pick(c, 3, 4) // ten levels x 64 buckets: every replay allocates ~1300 objects inside the real code
		dMH := vx.Pick(c, 4, 5)
		c.Rule(fmt.Sprintf("depth-bounded search (TimeSeries depth %d, MinuteHourSeries depth %d; with the histogram observable MinuteHourSeries one less) over every sequence of AddWithTime(2^i, t) for the i-th observation with t = R ± {0.5 s, 1.5 s, 63.5 s (59.5 s), 64.5 s (60.5 s), 70.5 s, 1 h+0.5 s, 200 d+0.5 s} (R a boundary of every level; mid-bucket instants, in and out of order, far past and far future), Total, {clock := R + 0.5 s|63.5 s|70.5 s|1 h; Latest/LatestBuckets of every level}, Clear, on TimeSeries and MinuteHourSeries with a harness clock, each with Float and with trace's histogram as Observable; after every history: Total, and for every level the whole retained window (one value, one value per bucket, two halves) and the aligned ranges around every bucket holding an observation, compared with the list of (time, value) pairs; non-trivial = history whose final range questions were all asked and compared", dTS, dMH))
		c.Rule("boundary part: the same search with observation instants exactly on bucket boundaries, Total only")
		c.Rule(fmt.Sprintf("differential part (Float; TimeSeries depth %d, MinuteHourSeries depth %d): every sequence of AddWithTime(2^i, t) with t = R + {0, ±1 s, ±0.5 s, +1.5 s, +10 s (MinuteHourSeries +60 s), -64 s (-60 s), -63.5 s (-59.5 s), +1 h} (instants exactly on bucket boundaries of level 0 / level 1 / every level / the edge of the retained window next to mid-bucket ones), {clock := R + 0.5 s|1 s|2 s|10.5 s (60.5 s)|64 s (60 s); Latest and LatestBuckets}, Total, Clear; after every history the series and twin fresh series that were given the same observations (a) without the interleaved reads / the earlier use and Clear, (b) also in timestamp order, are all read at the same mid-bucket clock instant not earlier than anything seen, and every bucket of every level's retained window (ComputeRange, one value per bucket) and LatestBuckets(level,3) must agree between them; Total is compared with the sum; non-trivial = history that differs from its twin (a read or Clear before a later AddWithTime, or out-of-order timestamps) and was compared completely", dTS, dMH))
		c.Assume("differential part: no bucket-membership convention for boundary instants is assumed; it only requires that aligned-range answers are a function of the set of (time, value) observations, whatever happened between the AddWithTime calls and in whatever order they arrived")
		c.Assume("bucket b of a level with resolution s ending at e holds the observations with e-s < t <= e, e = the latest instant seen (observation or clock at Latest) rounded up to s; observation instants exactly on a boundary are used for Total and for the differential part only")
		c.Assume("ranges whose start or end is not on a bucket boundary of the level that answers them, or that start before that level's retained window, are documented as approximate and are not asked; ScaleBy, Recent and RecentList are not exercised")
		c.Assume("level resolutions and bucket counts (1 s … 16 weeks x 64; 1 s, 1 min x 60) are taken from the type documentation")
		for _, hist := range []bool{false, true} {
			obs := "float"
			if hist {
				obs = "histogram"
			}
			c61Run(c, &c61Cfg{name: "TimeSeries/" + obs, sizes: c61TsSizes, n: 64, hist: hist, adds: tsAdds, clks: clks}, dTS, false)
			c61Run(c, &c61Cfg{name: "MinuteHourSeries/" + obs, sizes: c61MhSizes, n: 60, hist: hist, mh: true, adds: mhAdds, clks: clks}, c61MhDepth(dMH, hist), false)
		}
		c61Run(c, &c61Cfg{name: "TimeSeries/float/boundary-total", sizes: c61TsSizes, n: 64, adds: bndAdds, clks: []int64{0, 128}}, dTS, true)
		c61RunDiff(c, &c61Cfg{name: "TimeSeries/float/differential", sizes: c61TsSizes, n: 64, adds: tsDiffAdds, clks: tsDiffClks}, dTS)
		c61RunDiff(c, &c61Cfg{name: "MinuteHourSeries/float/differential", sizes: c61MhSizes, n: 60, mh: true, adds: mhDiffAdds, clks: mhDiffClks}, dMH)
	})
}
