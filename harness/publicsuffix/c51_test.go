package publicsuffix

import (
	"fmt"
	"sort"
	"strings"
	"testing"

	"golang.org/x/net/internal/zzverif/vx"
)

// C51 — public-suffix lookups follow the public suffix list algorithm.
//
// Reference: the textbook algorithm of publicsuffix.org/list (match the domain
// against all rules label-wise from the right; exception rule > rule with the
// most labels; "*" default), evaluated over the *plain rule list* `rules` /
// `numICANNRules` that the package's table_test.go carries — a representation
// of the list that is independent of the packed nodes/children/text tables
// PublicSuffix walks. The reference below is self-contained (it does not call
// slowPublicSuffix or anything else of the package).

type c51Rule struct {
	idx   int  // index in rules
	icann bool // idx < numICANNRules
}

// c51Index is the rule list keyed by the rule text without its "*." / "!"
// decoration, one map per rule kind.
type c51Index struct {
	normal    map[string]c51Rule // "co.uk"
	wildcard  map[string]c51Rule // "*.ck" stored under "ck"
	exception map[string]c51Rule // "!www.ck" stored under "www.ck"
	// suffixOfRule holds every rule text and every proper suffix of one: the
	// names for which any trie-shaped table has a node. Used only to name the
	// abstract trigger of a failure, never for the expected result.
	suffixOfRule map[string]bool
}

// implicit reports whether s is only an interior point of the rule tree: a
// proper suffix of some rule that is not itself a rule of any kind.
func (ix *c51Index) implicit(s string) bool {
	if !ix.suffixOfRule[s] {
		return false
	}
	_, a := ix.normal[s]
	_, b := ix.wildcard[s]
	_, c := ix.exception[s]
	return !a && !b && !c
}

// c51Trigger classifies a name for signatures: "/via-implicit-node" when the
// name's label path, below the node of the prevailing rule, passes through a
// point of the rule tree that is not a rule itself.
func c51Trigger(ix *c51Index, domain string, ref c51Ref) string {
	labels := strings.Split(domain, ".")
	n := len(labels)
	prov := 0 // depth (labels) of the node that carries the prevailing rule
	switch ref.kind {
	case "normal":
		prov = strings.Count(ref.suffix, ".") + 1
	case "wildcard":
		prov = strings.Count(ref.suffix, ".")
	case "exception":
		prov = strings.Count(ref.suffix, ".") + 2
	}
	for j := n - 1; j >= 0; j-- {
		t := strings.Join(labels[j:], ".")
		if !ix.suffixOfRule[t] {
			break
		}
		if n-j > prov && ix.implicit(t) {
			return "/via-implicit-node"
		}
	}
	return ""
}

func c51BuildIndex() *c51Index {
	ix := &c51Index{normal: map[string]c51Rule{}, wildcard: map[string]c51Rule{}, exception: map[string]c51Rule{}, suffixOfRule: map[string]bool{}}
	for i, r := range rules {
		for t := strings.TrimPrefix(strings.TrimPrefix(r, "*."), "!"); ; {
			ix.suffixOfRule[t] = true
			j := strings.IndexByte(t, '.')
			if j < 0 {
				break
			}
			t = t[j+1:]
		}
		ru := c51Rule{idx: i, icann: i < numICANNRules}
		switch {
		case strings.HasPrefix(r, "*."):
			ix.wildcard[r[2:]] = ru
		case strings.HasPrefix(r, "!"):
			ix.exception[r[1:]] = ru
		default:
			ix.normal[r] = ru
		}
	}
	return ix
}

type c51Ref struct {
	suffix    string
	icann     bool
	kind      string // default | normal | wildcard | exception
	icannOpen bool   // two rules of equal length with different sections prevail: flag not fixed by the algorithm
}

// c51Lookup is the list algorithm, steps 1-6. The domain must consist of
// non-empty labels.
func c51Lookup(ix *c51Index, domain string) c51Ref {
	labels := strings.Split(domain, ".")
	n := len(labels)
	tail := func(i int) string { return strings.Join(labels[i:], ".") }
	// An exception rule prevails over everything (step 3); its public suffix is
	// the rule minus its leftmost label (step 5).
	for i := 0; i < n; i++ {
		if ru, ok := ix.exception[tail(i)]; ok {
			return c51Ref{suffix: tail(i + 1), icann: ru.icann, kind: "exception"}
		}
	}
	// Otherwise the matching rule with the most labels (step 4): scan from the
	// longest candidate (the whole domain) down.
	for i := 0; i < n; i++ {
		nr, nok := ix.normal[tail(i)]
		var wr c51Rule
		wok := false
		if i+1 < n {
			wr, wok = ix.wildcard[tail(i+1)] // "*" matches labels[i]
		}
		switch {
		case nok && wok:
			return c51Ref{suffix: tail(i), icann: nr.icann, kind: "normal", icannOpen: nr.icann != wr.icann}
		case nok:
			return c51Ref{suffix: tail(i), icann: nr.icann, kind: "normal"}
		case wok:
			return c51Ref{suffix: tail(i), icann: wr.icann, kind: "wildcard"}
		}
	}
	// No rule matches: the prevailing rule is "*" (step 2).
	return c51Ref{suffix: labels[n-1], icann: false, kind: "default"}
}

func c51HasEmptyLabel(d string) bool {
	return d == "" || strings.HasPrefix(d, ".") || strings.HasSuffix(d, ".") || strings.Contains(d, "..")
}

func c51Check(w *vx.W, ix *c51Index, d string) {
	if c51HasEmptyLabel(d) {
		// Not a domain name: the list algorithm says nothing about PublicSuffix
		// here; EffectiveTLDPlusOne documents an error (and must not panic).
		PublicSuffix(d)
		got, err := EffectiveTLDPlusOne(d)
		if err == nil {
			w.Failf("C51/etld1/empty-label-accepted", "EffectiveTLDPlusOne(%q) = %q, nil; a name with an empty label has no eTLD+1", d, got)
			return
		}
		if got != "" {
			w.Failf("C51/etld1/error-with-result", "EffectiveTLDPlusOne(%q) = %q together with error %v", d, got, err)
		}
		w.Outcome("empty-label:error")
		return
	}
	ref := c51Lookup(ix, d)
	ps, icann := PublicSuffix(d)
	if ps != ref.suffix {
		w.Failf("C51/suffix/"+ref.kind+c51Trigger(ix, d, ref), "PublicSuffix(%q) = %q, the list algorithm selects %q (prevailing rule kind: %s)", d, ps, ref.suffix, ref.kind)
		return
	}
	if ref.icannOpen {
		w.Outcome("icann-open")
	} else if icann != ref.icann {
		kind := ref.kind
		if kind == "default" {
			kind = "default-rule"
		}
		w.Failf("C51/icann/"+kind+c51Trigger(ix, d, ref), "PublicSuffix(%q) = (%q, icann=%v), the prevailing %s rule is in the %s section", d, ps, icann, ref.kind, map[bool]string{true: "ICANN", false: "private (or none)"}[ref.icann])
		return
	}
	if ps2 := List.PublicSuffix(d); ps2 != ps {
		w.Failf("C51/suffix/list-interface-differs", "List.PublicSuffix(%q) = %q, PublicSuffix = %q", d, ps2, ps)
		return
	}
	got, err := EffectiveTLDPlusOne(d)
	if d == ref.suffix {
		if err == nil {
			w.Failf("C51/etld1/no-label-left-but-accepted/"+ref.kind, "EffectiveTLDPlusOne(%q) = %q, nil but the name is itself a public suffix", d, got)
			return
		}
		w.Outcome("is-suffix/" + ref.kind)
	} else {
		rest := strings.TrimSuffix(d, "."+ref.suffix)
		want := rest[strings.LastIndexByte(rest, '.')+1:] + "." + ref.suffix
		if err != nil || got != want {
			w.Failf("C51/etld1/"+ref.kind, "EffectiveTLDPlusOne(%q) = %q, %v; want %q (suffix %q plus one label)", d, got, err, want, ref.suffix)
			return
		}
		w.Outcome(fmt.Sprintf("below-suffix/%s/icann=%v", ref.kind, ref.icann))
	}
	if ref.kind != "default" {
		w.Nontrivial()
	}
}

// c51Common are labels that occur often as the first label of rules (so that
// prefixing them to another rule's text walks into real sibling nodes).
func c51Common(k int) []string {
	cnt := map[string]int{}
	for _, r := range rules {
		r = strings.TrimPrefix(strings.TrimPrefix(r, "*."), "!")
		cnt[r[:strings.IndexByte(r+".", '.')]]++
	}
	type kv struct {
		l string
		n int
	}
	var l []kv
	for a, b := range cnt {
		l = append(l, kv{a, b})
	}
	sort.Slice(l, func(i, j int) bool {
		if l[i].n != l[j].n {
			return l[i].n > l[j].n
		}
		return l[i].l < l[j].l
	})
	var out []string
	for i := 0; i < k && i < len(l); i++ {
		out = append(out, l[i].l)
	}
	return out
}

func TestVerif_C51(t *testing.T) {
	vx.Run(t, "C51", func(c *vx.Ctx) {
		ix := c51BuildIndex()
		nCommon := vx.Pick(c, 12, 150)
		common := c51Common(nCommon)
		c.Note("rules", len(rules))
		c.Note("rules.wildcard", len(ix.wildcard))
		c.Note("rules.exception", len(ix.exception))
		c.Rule(fmt.Sprintf("per-rule: for every one of the %d embedded rules r (text b without '*.'/'!'): b, b minus its first label, x.b, y.x.b, zz.y.x.b, www.b, l.b and x.l.b for the %d most frequent first labels l of the list, for wildcard rules a.b and b.a.b, for exception rules q.b; plus empty-label forms .b, b., x..b. small: every name of <= 3 (thorough 4) labels over a label set that contains TLDs with wildcard/exception/private rules. non-trivial = a rule other than the default '*' prevails; suffix, ICANN flag of the prevailing rule and eTLD+1 are compared with the textbook algorithm over the plain rule list", len(rules), nCommon))
		c.Assume("inputs are lower-case names made of non-empty labels (IP address literals and upper-case names are outside the list algorithm); for names with an empty label only EffectiveTLDPlusOne's error is checked")
		c.Assume("the plain rule list `rules`/`numICANNRules` in table_test.go is the same list the packed tables were generated from (both are written by one run of gen.go)")
		c.Assume("when a normal rule and a wildcard rule of equal length both prevail and lie in different sections, the ICANN flag is not compared")

		vx.Enumerate(c, "per-rule", vx.Opts{}, func(yield func(string) bool) {
			for _, r := range rules {
				b := strings.TrimPrefix(strings.TrimPrefix(r, "*."), "!")
				ds := []string{b, "x." + b, "y.x." + b, "zz.y.x." + b, "www." + b, "." + b, b + ".", "x.." + b}
				if i := strings.IndexByte(b, '.'); i >= 0 {
					ds = append(ds, b[i+1:])
				}
				if strings.HasPrefix(r, "*.") {
					ds = append(ds, "a."+b, "b.a."+b)
				}
				if strings.HasPrefix(r, "!") {
					ds = append(ds, "q."+b)
				}
				for _, l := range common {
					ds = append(ds, l+"."+b, "x."+l+"."+b)
				}
				for _, d := range ds {
					if !yield(d) {
						return
					}
				}
			}
		}, func(w *vx.W, d string) { c51Check(w, ix, d) })

		// implicit-node: every point of the rule tree that is not a rule itself
		// (a proper suffix t of some rule that is neither a normal nor an
		// exception rule and carries no wildcard rule), top-level ones included.
		// Below such a point, a first label that is NOT one of its listed
		// children leaves the tree after at least one label was consumed: the
		// prevailing rule is then the longest rule on the way up, or the default
		// "*" rule when t is a TLD that is only the parent of longer rules.
		var implicit []string
		for t := range ix.suffixOfRule {
			if ix.implicit(t) {
				implicit = append(implicit, t)
			}
		}
		sort.Strings(implicit)
		implicitTLD := 0
		for _, t := range implicit {
			if !strings.Contains(t, ".") {
				implicitTLD++
			}
		}
		c.Note("implicit.nodes", len(implicit))
		c.Note("implicit.nodes.tld", implicitTLD)
		c.Rule(fmt.Sprintf("implicit-node: for every one of the %d points t of the rule tree that are not rules themselves (proper suffix of a rule, not a normal/exception rule, no wildcard rule below; %d of them are TLDs, derived from the plain rule list): t, u.t, y.u.t, zz.y.u.t and www.u.t where u is the first of x, zz, q0, q1, ... such that u.t is not in the rule tree (u is not a listed child of t); in this part also the default rule is non-trivial when it prevails for a name of >= 2 labels (its TLD is in the rule tree, so the walk consumes a label before no rule matches)", len(implicit), implicitTLD))
		vx.Enumerate(c, "implicit-node", vx.Opts{}, func(yield func(string) bool) {
			for _, t := range implicit {
				u := ""
				for i, cand := 0, []string{"x", "zz"}; ; i++ {
					if i < len(cand) {
						u = cand[i]
					} else {
						u = fmt.Sprintf("q%d", i-len(cand))
					}
					if !ix.suffixOfRule[u+"."+t] {
						break
					}
				}
				for _, d := range []string{t, u + "." + t, "y." + u + "." + t, "zz.y." + u + "." + t, "www." + u + "." + t} {
					if !yield(d) {
						return
					}
				}
			}
		}, func(w *vx.W, d string) {
			c51Check(w, ix, d)
			if ref := c51Lookup(ix, d); ref.kind == "default" && !c51HasEmptyLabel(d) && strings.Contains(d, ".") {
				// c51Check counts only non-default cases; here the default rule
				// reached through a parent-only TLD is the case of interest.
				w.Nontrivial()
				w.Outcome("default-below-implicit-tld")
			}
		})

		labels := []string{"x", "zz", "com", "co", "uk", "ck", "www"}
		if !c.Quick() {
			labels = append(labels, "jp", "kobe", "city", "kawasaki", "org", "dyndns", "go", "appspot", "amazonaws", "s3", "compute", "blogspot", "er", "platform", "sh", "")
		}
		c.Note("small.labels", strings.Join(labels, ","))
		vx.Enumerate(c, "small", vx.Opts{}, func(yield func(string) bool) {
			for _, d := range []string{"", ".", "..", "...", "a", "a.", ".a", "a..b", "a.b", "xn--p1ai", "x.xn--p1ai"} {
				if !yield(d) {
					return
				}
			}
			vx.Strings(labels, 1, vx.Pick(c, 3, 4), func(ls []string) bool {
				return yield(strings.Join(ls, "."))
			})
		}, func(w *vx.W, d string) { c51Check(w, ix, d) })
	})
}
