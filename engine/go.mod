module verif

go 1.25.0
