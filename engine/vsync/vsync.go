// Package vsync is the controlled stand-in for package sync in code
// instrumented by vrewrite: every operation is a scheduling point of vsched.
package vsync

import (
	"sync"

	"golang.org/x/net/internal/zzverif/vsched"
)

// Mutex mirrors sync.Mutex.
type Mutex struct{ l vsched.Lockable }

func (m *Mutex) Lock() { m.l.Acquire("mutex.Lock") }
func (m *Mutex) Unlock() {
	m.l.Release("mutex.Unlock")
	if vsched.PostReleasePoints {
		// a thread may lose the processor right after releasing a lock
		vsched.Touch("after mutex.Unlock")
	}
}

// Once mirrors sync.Once: concurrent callers block until the first call's f
// has returned.
type Once struct {
	m    Mutex
	done bool
	real sync.Once // free-running mode only
}

func (o *Once) Do(f func()) {
	if vsched.Free {
		o.real.Do(f)
		return
	}
	o.m.Lock()
	defer o.m.Unlock()
	if !o.done {
		defer func() { o.done = true }()
		f()
	}
}

// WaitGroup mirrors sync.WaitGroup.
type WaitGroup struct {
	n    int
	real sync.WaitGroup // free-running mode only
}

func (w *WaitGroup) Add(d int) {
	if vsched.Free {
		w.real.Add(d)
		return
	}
	vsched.Yield()
	w.n += d
	if w.n < 0 {
		panic("sync: negative WaitGroup counter")
	}
}
func (w *WaitGroup) Done() { w.Add(-1) }
func (w *WaitGroup) Wait() {
	if vsched.Free {
		w.real.Wait()
		return
	}
	vsched.WaitUntil("wg.Wait", func() bool { return w.n == 0 })
}

// Pool mirrors sync.Pool as one shared LIFO free list (no per-P caches, no
// GC): every Put is visible to the next Get of any thread, which is the
// behaviour most likely to expose aliasing of pooled objects. Get and Put are
// scheduling points.
type Pool struct {
	New   func() any
	items []any
	mu    sync.Mutex // free-running mode only
}

func (p *Pool) Get() any {
	if vsched.Free {
		p.mu.Lock()
		defer p.mu.Unlock()
	} else {
		vsched.Touch("sync.Pool.Get")
	}
	if n := len(p.items); n > 0 {
		x := p.items[n-1]
		p.items = p.items[:n-1]
		return x
	}
	if p.New != nil {
		return p.New()
	}
	return nil
}

func (p *Pool) Put(x any) {
	if vsched.Free {
		p.mu.Lock()
		defer p.mu.Unlock()
	} else {
		vsched.Touch("sync.Pool.Put")
	}
	if x == nil {
		return
	}
	p.items = append(p.items, x)
	if !vsched.Free && vsched.PostReleasePoints {
		// the object is up for grabs from here on, whatever the caller still does with it
		vsched.Touch("after sync.Pool.Put")
	}
}

// RWMutex mirrors sync.RWMutex (readers are serialised too: a coarser but
// sound model for exclusion properties).
type RWMutex struct{ Mutex }

func (m *RWMutex) RLock()   { m.Lock() }
func (m *RWMutex) RUnlock() { m.Unlock() }
