// Package vsync is the controlled stand-in for package sync in code
// instrumented by vrewrite: every operation is a scheduling point of vsched.
package vsync

import (
	"sync"

	"golang.org/x/net/internal/zzverif/vsched"
)

// Mutex mirrors sync.Mutex.
type Mutex struct{ l vsched.Lockable }

func (m *Mutex) Lock()   { m.l.Acquire("mutex.Lock") }
func (m *Mutex) Unlock() { m.l.Release("mutex.Unlock") }

// Once mirrors sync.Once: concurrent callers block until the first call's f
// has returned.
type Once struct {
	m    Mutex
	done bool
	real sync.Once // free-running mode only
}

func (o *Once) Do(f func()) {
	if vsched.Free {
		o.real.Do(f)
		return
	}
	o.m.Lock()
	defer o.m.Unlock()
	if !o.done {
		defer func() { o.done = true }()
		f()
	}
}

// WaitGroup mirrors sync.WaitGroup.
type WaitGroup struct {
	n    int
	real sync.WaitGroup // free-running mode only
}

func (w *WaitGroup) Add(d int) {
	if vsched.Free {
		w.real.Add(d)
		return
	}
	vsched.Yield()
	w.n += d
	if w.n < 0 {
		panic("sync: negative WaitGroup counter")
	}
}
func (w *WaitGroup) Done() { w.Add(-1) }
func (w *WaitGroup) Wait() {
	if vsched.Free {
		w.real.Wait()
		return
	}
	vsched.WaitUntil("wg.Wait", func() bool { return w.n == 0 })
}
