// vcheck is the driver of the verification checks.
//
//	vcheck <ID> quick|thorough        run a check, write evidence/<ID>.json, exit 0/1/2
//	vcheck <ID> --replay <file>       re-execute one recorded case (exit 1 if it still fails)
//	vcheck manifest                   regenerate MANIFEST.json from harness/registry.json
//	vcheck warm                       pre-build every harness test binary (setup)
//	vcheck list                       list registered checks
//
// Exit status: 0 property held on everything explored (known findings are
// printed as KNOWN-FINDING lines), 1 at least one violation that is not a
// listed known finding (VIOLATION lines), 2 the check itself is broken
// (harness does not build, shard died, vacuous exploration).
package main

import (
	"bytes"
	"crypto/sha256"
	"encoding/binary"
	"encoding/hex"
	"encoding/json"
	"fmt"
	"go/build"
	"os"
	"os/exec"
	"path/filepath"
	"sort"
	"strconv"
	"strings"
	"sync"
	"time"
)

const verifDir = "/verif"

// repoDir is the tree under test. VERIF_REPO redirects a run to a scratch
// worktree (used to try checks against deliberately broken copies); such runs
// write their evidence and replay files under .work, never under evidence/.
var (
	repoDir = "/repo"
	scratch = false
)

func init() {
	if r := os.Getenv("VERIF_REPO"); r != "" {
		repoDir = filepath.Clean(r)
		scratch = true
	}
}

type entry struct {
	ID        string   `json:"id"`
	Pkg       string   `json:"pkg"`   // package directory relative to /repo (or virtual)
	Files     []string `json:"files"` // harness files relative to /verif/harness
	Test      string   `json:"test,omitempty"`
	Shards    int      `json:"shards,omitempty"`     // worker processes (default 1: in-process goroutines)
	MaxProcs  int      `json:"gomaxprocs,omitempty"` // GOMAXPROCS per shard (0 = cores/shards)
	Level     string   `json:"level"`
	Technique string   `json:"technique"`
	Text      string   `json:"text"`
	Note      string   `json:"note"`
	DesignRef string   `json:"design_ref"`
	QuickS    int      `json:"quick_s,omitempty"`
	ThoroughS int      `json:"thorough_s,omitempty"`
	// Rewrite lists repository files (relative to /repo) that are instrumented
	// by vrewrite and compiled into the virtual package Pkg (SCHED checks).
	Rewrite []string `json:"rewrite,omitempty"`
	// Extra maps additional overlay files: key = path relative to /repo,
	// value = path relative to /verif/harness.
	Extra map[string]string `json:"extra,omitempty"`
	// CrashIsViolation: a shard that dies with a Go panic/fatal error inside
	// repository code is attributed to the breadcrumb case and re-run.
	CrashIsViolation bool `json:"crash_is_violation,omitempty"`
	// RacePass: after the exhaustive pass, run the same harness bodies
	// free-running (VERIF_FREE=1) in a -race build for this many seconds
	// (quick, thorough) and report data races between two accesses that are
	// both in the instrumented source. Supplementary (sampling), SCHED checks only.
	RacePass []int `json:"race_pass_s,omitempty"`
	// RewriteGlobals: run vrewrite with -globals (scheduling points at
	// accesses to written package-level variables, zzResetGlobals).
	RewriteGlobals bool `json:"rewrite_globals,omitempty"`
	// RewritePure: with RewriteGlobals, pass -pure (channels, select, go and
	// context are left alone; only sync.Once/Pool/Mutex/RWMutex are shimmed).
	RewritePure bool `json:"rewrite_pure,omitempty"`
	// Sub lists further parts of the same check that need their own test
	// binary (e.g. a SCHED part in a virtual package next to an input
	// enumeration in the real package). Results are merged into one
	// evidence file; a replay file is routed by the prefix of its "part".
	Sub []entry `json:"sub,omitempty"`
	// Name and PartPrefix identify a sub-entry.
	Name       string `json:"name,omitempty"`
	PartPrefix string `json:"part_prefix,omitempty"`
	// MinOutcomes is the least number of distinct observed outcomes for the
	// exploration to count as non-vacuous (default 2).
	MinOutcomes int    `json:"min_outcomes,omitempty"`
	Engine      string `json:"engine,omitempty"`
}

type registry struct {
	Checks        []entry             `json:"checks"`
	NotApplicable []map[string]string `json:"not_applicable"`
}

func loadRegistry() registry {
	var r registry
	b, err := os.ReadFile(filepath.Join(verifDir, "harness", "registry.json"))
	if err != nil {
		die(2, "registry: %v", err)
	}
	if err := json.Unmarshal(b, &r); err != nil {
		die(2, "registry: %v", err)
	}
	// one file per check in registry.d (so that checks can be added independently)
	frag, _ := filepath.Glob(filepath.Join(verifDir, "harness", "registry.d", "*.json"))
	sort.Strings(frag)
	for _, f := range frag {
		fb, err := os.ReadFile(f)
		if err != nil {
			die(2, "registry: %v", err)
		}
		var e entry
		if err := json.Unmarshal(fb, &e); err != nil {
			die(2, "registry %s: %v", f, err)
		}
		r.Checks = append(r.Checks, e)
	}
	sort.SliceStable(r.Checks, func(i, j int) bool { return r.Checks[i].ID < r.Checks[j].ID })
	return r
}

func die(code int, f string, a ...any) {
	fmt.Fprintf(os.Stderr, "vcheck: "+f+"\n", a...)
	os.Exit(code)
}

func goBin() string {
	for _, p := range []string{
		"/root/go/pkg/mod/golang.org/toolchain@v0.0.1-go1.25.0.linux-amd64/bin/go",
	} {
		if _, err := os.Stat(p); err == nil {
			return p
		}
	}
	if p, err := exec.LookPath("go1.26"); err == nil {
		return p
	}
	return "go"
}

func goEnv() []string {
	env := os.Environ()
	out := env[:0:0]
	for _, e := range env {
		if strings.HasPrefix(e, "GOFLAGS=") || strings.HasPrefix(e, "GOPROXY=") || strings.HasPrefix(e, "GOTOOLCHAIN=") ||
			strings.HasPrefix(e, "GOSUMDB=") || strings.HasPrefix(e, "GOWORK=") {
			continue
		}
		out = append(out, e)
	}
	return append(out, "GOFLAGS=-mod=mod", "GOPROXY=off", "GOTOOLCHAIN=local", "GOWORK=off", "GONOSUMDB=*", "GONOSUMCHECK=1", "GOSUMDB=off")
}

func workDir(id string) string {
	d := filepath.Join(verifDir, ".work", id)
	if scratch {
		d = filepath.Join(verifDir, ".work", id+"-"+sigHash(repoDir))
	}
	os.MkdirAll(d, 0o755)
	return d
}

// buildOverlay writes the overlay JSON for a check and returns its path and
// the import path of the package to test.
func buildOverlay(e entry, wd string) (string, string) {
	repl := map[string]string{}
	// explorer core as a virtual internal package
	for _, sub := range []string{"vx", "vsched", "vsync", "vctx"} {
		files, _ := filepath.Glob(filepath.Join(verifDir, "engine", sub, "*.go"))
		for _, f := range files {
			if strings.HasSuffix(f, "_test.go") {
				continue
			}
			repl[filepath.Join(repoDir, "internal", "zzverif", sub, filepath.Base(f))] = f
		}
	}
	for _, f := range e.Files {
		src := filepath.Join(verifDir, "harness", f)
		if _, err := os.Stat(src); err != nil {
			die(2, "harness file missing: %s", src)
		}
		base := filepath.Base(f)
		dst := filepath.Join(repoDir, e.Pkg, "zz_verif_"+base)
		repl[dst] = src
	}
	for dst, src := range e.Extra {
		repl[filepath.Join(repoDir, dst)] = filepath.Join(verifDir, "harness", src)
	}
	if len(e.Rewrite) > 0 {
		outDir := filepath.Join(wd, "rewritten")
		os.RemoveAll(outDir)
		os.MkdirAll(outDir, 0o755)
		args := []string{"-out", outDir, "-pkg", filepath.Base(e.Pkg)}
		if e.RewriteGlobals {
			args = append([]string{"-globals"}, args...)
			if e.RewritePure {
				args = append([]string{"-pure"}, args...)
			}
		}
		for _, f := range e.Rewrite {
			if strings.ContainsAny(f, "*?") {
				ms, _ := filepath.Glob(filepath.Join(repoDir, f))
				sort.Strings(ms)
				for _, m := range ms {
					if strings.HasSuffix(m, "_test.go") {
						continue
					}
					if ok, err := build.Default.MatchFile(filepath.Dir(m), filepath.Base(m)); err != nil || !ok {
						continue // excluded by build constraints (e.g. //go:build ignore)
					}
					args = append(args, m)
				}
				continue
			}
			args = append(args, filepath.Join(repoDir, f))
		}
		cmd := exec.Command(filepath.Join(verifDir, "bin", "vrewrite"), args...)
		var rwOut bytes.Buffer
		cmd.Stderr = &rwOut
		cmd.Stdout = &rwOut
		defer func() {
			if s := strings.TrimSpace(rwOut.String()); s != "" {
				os.WriteFile(filepath.Join(wd, "vrewrite.log"), []byte(s+"\n"), 0o644)
			}
		}()
		if err := cmd.Run(); err != nil {
			die(2, "vrewrite failed: %v\n%s", err, rwOut.String())
		}
		gen, _ := filepath.Glob(filepath.Join(outDir, "*.go"))
		for _, g := range gen {
			repl[filepath.Join(repoDir, e.Pkg, filepath.Base(g))] = g
		}
		// files named by //go:embed directives of the instrumented source
		if el, err := os.ReadFile(filepath.Join(outDir, "embed.list")); err == nil {
			for _, ln := range strings.Split(strings.TrimSpace(string(el)), "\n") {
				f := strings.SplitN(ln, "\t", 2)
				if len(f) != 2 {
					continue
				}
				ms, _ := filepath.Glob(filepath.Join(f[0], f[1]))
				for _, m := range ms {
					if rel, err := filepath.Rel(f[0], m); err == nil {
						repl[filepath.Join(repoDir, e.Pkg, rel)] = m
					}
				}
			}
		}
	}
	ov := map[string]any{"Replace": repl}
	b, _ := json.MarshalIndent(ov, "", " ")
	p := filepath.Join(wd, "overlay.json")
	if err := os.WriteFile(p, b, 0o644); err != nil {
		die(2, "overlay: %v", err)
	}
	return p, "golang.org/x/net/" + e.Pkg
}

func buildTestBinary(e entry, wd string) (string, error) {
	return buildTestBinaryMode(e, wd, false)
}

func buildTestBinaryMode(e entry, wd string, race bool) (string, error) {
	ov, imp := buildOverlay(e, wd)
	bin := filepath.Join(wd, "t.test")
	args := []string{"test", "-c", "-overlay", ov, "-vet=off"}
	if race {
		bin = filepath.Join(wd, "t.race.test")
		args = append(args, "-race")
	}
	os.Remove(bin)
	args = append(args, "-o", bin, imp)
	cmd := exec.Command(goBin(), args...)
	cmd.Dir = repoDir
	cmd.Env = goEnv()
	if race {
		cmd.Env = append(cmd.Env, "CGO_ENABLED=1")
	}
	var buf bytes.Buffer
	cmd.Stdout = &buf
	cmd.Stderr = &buf
	if err := cmd.Run(); err != nil {
		return "", fmt.Errorf("go test -c failed: %v\n%s", err, buf.String())
	}
	if _, err := os.Stat(bin); err != nil {
		return "", fmt.Errorf("no test binary produced\n%s", buf.String())
	}
	return bin, nil
}

// ---- result merging ------------------------------------------------------

type violation struct {
	Sig    string          `json:"signature"`
	What   string          `json:"what"`
	Part   string          `json:"part"`
	Case   json.RawMessage `json:"case"`
	Reruns int             `json:"reruns_confirming"`
}

type shardResult struct {
	ID           string            `json:"id"`
	Evaluations  int64             `json:"evaluations"`
	Nontrivial   int64             `json:"nontrivial"`
	States       int64             `json:"states"`
	Transitions  int64             `json:"transitions"`
	Traces       int64             `json:"traces"`
	Outcomes     []string          `json:"outcomes"`
	DistinctFile string            `json:"distinct_file"`
	DistinctN    int64             `json:"distinct_n"`
	Samples      []json.RawMessage `json:"samples"`
	Rules        []string          `json:"rules"`
	Assumptions  []string          `json:"assumptions"`
	Notes        map[string]any    `json:"notes"`
	Caps         []string          `json:"caps"`
	Exhaustive   bool              `json:"exhaustive"`
	Violations   []violation       `json:"violations"`
	Unreproduced []violation       `json:"unreproduced"`
	Parts        map[string]int64  `json:"parts"`
	WallS        float64           `json:"wall_s"`
	ReplayFailed bool              `json:"replay_failed"`
	Completed    bool              `json:"completed"`
}

type finding struct {
	Status   string `json:"status"` // known | fixed
	Property string `json:"property"`
	Sig      string `json:"signature"`
	What     string `json:"what"`
	Commit   string `json:"commit,omitempty"`
}

// loadFindings reads /verif/known_findings.txt. Line formats:
//
//	known: property=<id> signature=<sig> <what fails>
//	fixed: property=<id> <commit> <what failed>
//
// Only "known" lines suppress anything, and only the exact signature they
// name; "fixed" lines are a record.
func loadFindings() []finding {
	var out []finding
	b, err := os.ReadFile(filepath.Join(verifDir, "known_findings.txt"))
	if err != nil {
		return nil
	}
	for _, l := range strings.Split(string(b), "\n") {
		l = strings.TrimSpace(l)
		if l == "" || strings.HasPrefix(l, "#") {
			continue
		}
		var f finding
		switch {
		case strings.HasPrefix(l, "known:"):
			f.Status = "known"
			l = strings.TrimSpace(strings.TrimPrefix(l, "known:"))
		case strings.HasPrefix(l, "fixed:"):
			f.Status = "fixed"
			l = strings.TrimSpace(strings.TrimPrefix(l, "fixed:"))
		default:
			die(2, "known_findings.txt: unrecognised line: %s", l)
		}
		fs := strings.Fields(l)
		if len(fs) < 2 || !strings.HasPrefix(fs[0], "property=") {
			die(2, "known_findings.txt: malformed line: %s", l)
		}
		f.Property = strings.TrimPrefix(fs[0], "property=")
		rest := fs[1:]
		if f.Status == "known" {
			if !strings.HasPrefix(rest[0], "signature=") {
				die(2, "known_findings.txt: known line without signature=: %s", l)
			}
			f.Sig = strings.TrimPrefix(rest[0], "signature=")
			rest = rest[1:]
		} else {
			f.Commit = rest[0]
			rest = rest[1:]
		}
		f.What = strings.Join(rest, " ")
		out = append(out, f)
	}
	return out
}

type shardRun struct {
	e       entry
	bin, wd string
	idx     int
	res     *shardResult
	died    bool
	output  string
	crumb   []byte
	timeout bool
}

func runShards(e entry, bin, wd, tier string, seed int64, replay string) []shardRun {
	n := e.Shards
	if n <= 0 {
		n = 1
	}
	if replay != "" {
		n = 1
	}
	budget := e.QuickS
	if budget == 0 {
		budget = 45
	}
	if tier == "thorough" {
		budget = e.ThoroughS
		if budget == 0 {
			budget = 600
		}
	}
	if s := os.Getenv("VERIF_BUDGET_S"); s != "" {
		if v, err := strconv.Atoi(s); err == nil {
			budget = v
		}
	}
	test := e.Test
	if test == "" {
		test = "TestVerif_" + e.ID
	}
	runs := make([]shardRun, n)
	var wg sync.WaitGroup
	for i := 0; i < n; i++ {
		wg.Add(1)
		go func(i int) {
			defer wg.Done()
			out := filepath.Join(wd, fmt.Sprintf("shard%d.json", i))
			os.Remove(out)
			os.Remove(out + ".crumb")
			os.Remove(out + ".distinct")
			hard := time.Duration(budget)*time.Second*3 + 120*time.Second
			cmd := exec.Command(bin, "-test.run", "^"+test+"$", "-test.timeout", fmt.Sprintf("%ds", int(hard.Seconds())+60))
			cmd.Dir = filepath.Join(repoDir, e.Pkg)
			if _, err := os.Stat(cmd.Dir); err != nil {
				cmd.Dir = wd
			}
			env := append(goEnv(),
				"VERIF_TIER="+tier,
				"VERIF_SEED="+strconv.FormatInt(seed, 10),
				fmt.Sprintf("VERIF_SHARD=%d/%d", i, n),
				"VERIF_OUT="+out,
				fmt.Sprintf("VERIF_DEADLINE_S=%d", budget),
				"GOTRACEBACK=all",
			)
			if replay != "" {
				env = append(env, "VERIF_REPLAY="+replay, "VERIF_WATCHDOG_S=20")
			}
			mp := e.MaxProcs
			if mp == 0 && n > 1 {
				mp = max(1, 16/n)
			}
			if mp > 0 {
				env = append(env, fmt.Sprintf("GOMAXPROCS=%d", mp))
			}
			cmd.Env = env
			var buf bytes.Buffer
			cmd.Stdout = &buf
			cmd.Stderr = &buf
			done := make(chan error, 1)
			if err := cmd.Start(); err != nil {
				runs[i] = shardRun{e: e, bin: bin, wd: wd, idx: i, died: true, output: err.Error()}
				return
			}
			go func() { done <- cmd.Wait() }()
			var err error
			timedOut := false
			select {
			case err = <-done:
			case <-time.After(hard):
				cmd.Process.Kill()
				err = <-done
				timedOut = true
			}
			r := shardRun{e: e, bin: bin, wd: wd, idx: i, output: buf.String(), timeout: timedOut}
			b, rerr := os.ReadFile(out)
			if rerr == nil {
				var sr shardResult
				if json.Unmarshal(b, &sr) == nil && sr.Completed {
					r.res = &sr
				}
			}
			if r.res == nil {
				r.died = true
				r.crumb, _ = os.ReadFile(out + ".crumb")
			}
			_ = err
			runs[i] = r
		}(i)
	}
	wg.Wait()
	return runs
}

func tail(s string, n int) string {
	if len(s) > n {
		return "…" + s[len(s)-n:]
	}
	return s
}

func runCheck(e entry, tier string, replay string) int {
	start := time.Now()
	seed, _ := strconv.ParseInt(os.Getenv("VERIF_SEED"), 10, 64)
	wd := workDir(e.ID)
	evPath := filepath.Join(verifDir, "evidence", e.ID+".json")
	replayDir := filepath.Join(verifDir, "replay", e.ID)
	if scratch {
		evPath = filepath.Join(wd, "evidence.json")
		replayDir = filepath.Join(wd, "replay")
	}
	main := e
	var subs []entry
	for _, sb := range e.Sub {
		sb.ID = e.ID
		if sb.Level == "" {
			sb.Level = e.Level
		}
		subs = append(subs, sb)
	}
	subWD := func(sb entry) string { return workDir(e.ID + "." + sb.Name) }
	if replay != "" {
		var rf struct {
			Part string `json:"part"`
		}
		if b, err := os.ReadFile(replay); err == nil && json.Unmarshal(b, &rf) == nil {
			for _, sb := range subs {
				if sb.PartPrefix != "" && strings.HasPrefix(rf.Part, sb.PartPrefix) {
					e, wd = sb, subWD(sb)
					subs = nil
				}
			}
		}
	}
	bin, err := buildTestBinary(e, wd)
	if err != nil {
		fmt.Fprintf(os.Stderr, "HARNESS-ERROR property=%s harness does not build against the current tree:\n%v\n", e.ID, err)
		return 2
	}
	buildS := time.Since(start).Seconds()
	if replay != "" && len(e.RacePass) == 2 {
		var rf struct {
			Sig  string `json:"signature"`
			Part string `json:"part"`
		}
		if b, err := os.ReadFile(replay); err == nil && json.Unmarshal(b, &rf) == nil && rf.Part == "race-pass" {
			// free-running schedules cannot be replayed: run the pass again
			os.Setenv("VERIF_RACE_S", envOr("VERIF_RACE_S", "30"))
			_, vs := racePass(e, wd, "thorough", seed)
			for _, v := range vs {
				if v.Sig == rf.Sig {
					fmt.Printf("replay (free-running -race pass re-run) reproduces: %s\n%s\n", v.Sig, trunc(v.What, 1500))
					fmt.Printf("VIOLATION property=%s replay=%s\n", e.ID, replay)
					return 1
				}
			}
			fmt.Printf("replay: the free-running -race pass did not report %s on the current tree\n", rf.Sig)
			return 0
		}
	}
	runs := runShards(e, bin, wd, tier, seed, replay)
	type builtPart struct {
		e  entry
		wd string
	}
	parts := []builtPart{{e, wd}}
	if replay == "" {
		for _, sb := range subs {
			t1 := time.Now()
			swd := subWD(sb)
			sbin, err := buildTestBinary(sb, swd)
			if err != nil {
				fmt.Fprintf(os.Stderr, "HARNESS-ERROR property=%s part %s does not build against the current tree:\n%v\n", e.ID, sb.Name, err)
				return 2
			}
			buildS += time.Since(t1).Seconds()
			runs = append(runs, runShards(sb, sbin, swd, tier, seed, "")...)
			parts = append(parts, builtPart{sb, swd})
		}
	}
	e = main

	if replay != "" {
		r := runs[0]
		if r.died {
			fmt.Printf("replay: process died\n%s\n", tail(r.output, 4000))
			fmt.Printf("VIOLATION property=%s replay=%s\n", e.ID, replay)
			return 1
		}
		if len(r.res.Violations) > 0 {
			for _, v := range r.res.Violations {
				fmt.Printf("replay reproduces: %s — %s\n", v.Sig, v.What)
			}
			fmt.Printf("VIOLATION property=%s replay=%s\n", e.ID, replay)
			return 1
		}
		fmt.Printf("replay: case passes on the current tree\n")
		return 0
	}

	// merge
	var m shardResult
	m.Exhaustive = true
	m.Notes = map[string]any{}
	m.Parts = map[string]int64{}
	outcomes := map[string]struct{}{}
	distinct := map[uint64]struct{}{}
	broken := false
	shardsWithBounds := 0
	_ = shardsWithBounds
	var crashVios []violation
	for _, r := range runs {
		if r.died {
			if (e.CrashIsViolation || strings.Contains(r.output, "vx: watchdog")) && len(r.crumb) > 0 && !r.timeout {
				if v, ok := confirmCrash(r.e, r.bin, r.wd, tier, seed, r); ok {
					crashVios = append(crashVios, v)
					m.Exhaustive = false
					m.Caps = append(m.Caps, fmt.Sprintf("shard %d died on a crashing case; the rest of that shard was not explored", r.idx))
					continue
				}
			}
			broken = true
			fmt.Fprintf(os.Stderr, "HARNESS-ERROR property=%s shard %d did not complete (timeout=%v):\n%s\n", e.ID, r.idx, r.timeout, tail(r.output, 6000))
			continue
		}
		s := r.res
		m.Evaluations += s.Evaluations
		m.Nontrivial += s.Nontrivial
		m.States += s.States
		m.Transitions += s.Transitions
		m.Traces += s.Traces
		for _, o := range s.Outcomes {
			outcomes[o] = struct{}{}
		}
		if s.DistinctFile != "" {
			if b, err := os.ReadFile(s.DistinctFile); err == nil {
				for i := 0; i+8 <= len(b); i += 8 {
					distinct[binary.LittleEndian.Uint64(b[i:])] = struct{}{}
				}
			}
			os.Remove(s.DistinctFile)
		}
		for _, x := range s.Samples {
			if len(m.Samples) < 10 {
				m.Samples = append(m.Samples, x)
			}
		}
		m.Rules = uniq(append(m.Rules, s.Rules...))
		m.Assumptions = uniq(append(m.Assumptions, s.Assumptions...))
		m.Caps = uniq(append(m.Caps, s.Caps...))
		for k, v := range s.Notes {
			if k == "preemption_bound_completed_per_program" {
				// a bound is completed only if every shard completed it: keep the minimum
				cur, _ := m.Notes[k].(map[string]any)
				nv, _ := v.(map[string]any)
				if cur == nil {
					m.Notes[k] = nv
					shardsWithBounds = 1
					continue
				}
				shardsWithBounds++
				rank := func(x any) float64 {
					switch t := x.(type) {
					case float64:
						return t
					case string:
						return 1e9
					}
					return -1
				}
				for name, old := range cur {
					nw, ok := nv[name]
					if !ok {
						delete(cur, name)
						continue
					}
					if rank(nw) < rank(old) {
						cur[name] = nw
					}
				}
				continue
			}
			m.Notes[k] = v
		}
		for k, v := range s.Parts {
			m.Parts[k] += v
		}
		if !s.Exhaustive {
			m.Exhaustive = false
		}
		m.Violations = append(m.Violations, s.Violations...)
		m.Unreproduced = append(m.Unreproduced, s.Unreproduced...)
		if s.WallS > m.WallS {
			m.WallS = s.WallS
		}
	}
	m.Violations = append(m.Violations, crashVios...)
	if broken && len(m.Violations) == 0 {
		return 2
	}
	if broken {
		// some shard or part did not complete, but others found violations:
		// report those (exit 1) rather than hiding them behind the harness error
		m.Exhaustive = false
		m.Caps = append(m.Caps, "a shard or part did not complete (see HARNESS-ERROR above); violations found by the others are reported")
	}
	for _, bp := range parts {
		if len(bp.e.RacePass) == 2 && racePassBudget(bp.e, tier) > 0 {
			info, rv := racePass(bp.e, bp.wd, tier, seed)
			key := "race_pass"
			if bp.e.Name != "" {
				key += "/" + bp.e.Name
			}
			m.Notes[key] = info
			m.Violations = append(m.Violations, rv...)
			if ok, _ := info["completed"].(bool); !ok {
				m.Caps = append(m.Caps, "supplementary free-running -race pass did not complete: "+fmt.Sprint(info["error"]))
			}
		}
	}

	// classify violations against the known-findings file
	findings := loadFindings()
	known := map[string]finding{}
	for _, f := range findings {
		if f.Status == "known" && f.Property == e.ID {
			known[f.Sig] = f
		}
	}
	bySig := map[string]violation{}
	var sigs []string
	for _, v := range m.Violations {
		if old, ok := bySig[v.Sig]; !ok || len(v.Case) < len(old.Case) {
			if !ok {
				sigs = append(sigs, v.Sig)
			}
			bySig[v.Sig] = v
		}
	}
	sort.Strings(sigs)
	os.MkdirAll(replayDir, 0o755)
	newVios, knownSeen := 0, 0
	var evVios []map[string]any
	for _, sig := range sigs {
		v := bySig[sig]
		rp := filepath.Join(replayDir, sigHash(sig)+".json")
		rf := map[string]any{"property": e.ID, "signature": v.Sig, "what": v.What, "part": v.Part, "case": v.Case}
		b, _ := json.MarshalIndent(rf, "", " ")
		os.WriteFile(rp, b, 0o644)
		if k, ok := known[sig]; ok {
			fmt.Printf("KNOWN-FINDING: property=%s %s [%s]\n", e.ID, k.What, sig)
			knownSeen++
			evVios = append(evVios, map[string]any{"signature": sig, "known_finding": true, "replay": rp})
			continue
		}
		newVios++
		fmt.Printf("violation: %s\n  %s\n", sig, strings.ReplaceAll(trunc(v.What, 1500), "\n", "\n  "))
		fmt.Printf("VIOLATION property=%s replay=%s\n", e.ID, rp)
		evVios = append(evVios, map[string]any{"signature": sig, "known_finding": false, "replay": rp, "what": trunc(v.What, 500)})
	}
	for sig, k := range known {
		if _, ok := bySig[sig]; !ok {
			fmt.Printf("KNOWN-FINDING-NOT-SEEN: property=%s %s [%s] (listed, but this run did not encounter it)\n", e.ID, k.What, sig)
		}
	}

	dn := m.Nontrivial
	if int64(len(distinct)) > 0 {
		dn = int64(len(distinct))
	}
	minOut := e.MinOutcomes
	if minOut == 0 {
		minOut = 2
	}
	vacuous := len(outcomes) < minOut || dn < 2 || m.Evaluations < 1

	cov := map[string]any{
		"evaluations":         m.Evaluations,
		"distinct_nontrivial": dn,
		"rule":                strings.Join(m.Rules, " | "),
		"samples":             m.Samples,
		"exhaustive":          m.Exhaustive,
		"distinct_outcomes":   len(outcomes),
		"parts":               m.Parts,
		"caps_hit":            m.Caps,
		"bounds":              m.Notes,
		"shards":              len(runs),
		"unreproduced":        len(m.Unreproduced),
		"known_findings_seen": knownSeen,
		"build_s":             round1(buildS),
	}
	if m.States > 0 && m.Transitions > 0 {
		cov["states"] = m.States
		cov["transitions"] = m.Transitions
		cov["traces_validated_against_impl"] = m.Traces
	}
	if len(evVios) > 0 {
		cov["violations_detail"] = evVios
	}
	ev := map[string]any{
		"property_id": e.ID,
		"tier":        tier,
		"seed":        seed,
		"level":       e.Level,
		"coverage":    cov,
		"assumptions": m.Assumptions,
		"wall_s":      round1(time.Since(start).Seconds()),
		"violations":  newVios,
		"technique":   e.Technique,
	}
	if m.Assumptions == nil {
		ev["assumptions"] = []string{}
	}
	if m.Samples == nil {
		cov["samples"] = []string{}
	}
	b, _ := json.MarshalIndent(ev, "", " ")
	os.MkdirAll(filepath.Join(verifDir, "evidence"), 0o755)
	if err := os.WriteFile(evPath, append(b, '\n'), 0o644); err != nil {
		die(2, "evidence: %v", err)
	}
	fmt.Printf("check %s tier=%s: evaluations=%d distinct_nontrivial=%d states=%d transitions=%d outcomes=%d exhaustive=%v violations=%d known=%d wall=%.1fs (build %.1fs)\n",
		e.ID, tier, m.Evaluations, dn, m.States, m.Transitions, len(outcomes), m.Exhaustive, newVios, knownSeen, time.Since(start).Seconds(), buildS)
	for _, cp := range m.Caps {
		fmt.Printf("  cap: %s\n", cp)
	}
	if newVios > 0 {
		return 1
	}
	if broken {
		return 2
	}
	if vacuous {
		fmt.Fprintf(os.Stderr, "HARNESS-ERROR property=%s vacuous exploration (evaluations=%d distinct=%d outcomes=%d)\n", e.ID, m.Evaluations, dn, len(outcomes))
		return 2
	}
	return 0
}

// racePass builds the harness with -race and runs the same thread programs
// free-running (real goroutines, channels and mutexes; see vsched/free.go).
// Only reports whose two conflicting accesses are both located in the
// instrumented repository source count: the harness monitors are deliberately
// unsynchronised and race with each other. The pass samples schedules, so it
// can only add violations, never decide that there are none.
func racePass(e entry, wd, tier string, seed int64) (map[string]any, []violation) {
	info := map[string]any{"completed": false, "kind": "supplementary: same harness bodies, free-running under the Go race detector (sampling, not exhaustive)"}
	budget := racePassBudget(e, tier)
	t0 := time.Now()
	bin, err := buildTestBinaryMode(e, wd, true)
	if err != nil {
		info["error"] = trunc(err.Error(), 600)
		return info, nil
	}
	info["build_s"] = round1(time.Since(t0).Seconds())
	test := e.Test
	if test == "" {
		test = "TestVerif_" + e.ID
	}
	out := filepath.Join(wd, "race.json")
	logBase := filepath.Join(wd, "racelog")
	old, _ := filepath.Glob(logBase + ".*")
	for _, f := range old {
		os.Remove(f)
	}
	os.Remove(out)
	cmd := exec.Command(bin, "-test.run", "^"+test+"$", "-test.timeout", fmt.Sprintf("%ds", budget*3+180))
	cmd.Dir = wd
	cmd.Env = append(goEnv(), "VERIF_FREE=1", "VERIF_TIER="+tier, "VERIF_SEED="+strconv.FormatInt(seed, 10),
		"VERIF_SHARD=0/1", "VERIF_OUT="+out, fmt.Sprintf("VERIF_DEADLINE_S=%d", budget),
		"GORACE=log_path="+logBase+" halt_on_error=0", "GOMAXPROCS=8")
	var buf bytes.Buffer
	cmd.Stdout = &buf
	cmd.Stderr = &buf
	cmd.Run() // the exit status is 1 whenever the detector reported anything, including harness-only races
	b, rerr := os.ReadFile(out)
	var sr shardResult
	if rerr != nil || json.Unmarshal(b, &sr) != nil || !sr.Completed {
		info["error"] = "free-running process did not complete: " + tail(buf.String(), 600)
		return info, nil
	}
	info["completed"] = true
	info["free_run"] = sr.Notes["free_run"]
	info["wall_s"] = round1(time.Since(t0).Seconds())
	inst := map[string]bool{}
	gen, _ := filepath.Glob(filepath.Join(wd, "rewritten", "*.go"))
	for _, f := range gen {
		inst[filepath.Base(f)] = true
	}
	logs, _ := filepath.Glob(logBase + ".*")
	reports, inSource := 0, 0
	bySig := map[string]string{}
	for _, lf := range logs {
		data, _ := os.ReadFile(lf)
		for _, blk := range strings.Split(string(data), "==================") {
			if !strings.Contains(blk, "WARNING: DATA RACE") {
				continue
			}
			reports++
			sites := raceSites(blk)
			if len(sites) < 2 {
				continue
			}
			if strings.Contains(blk, ".zzResetGlobals") {
				// the harness re-initialising package state for the next program
				// while a thread of an abandoned (slow) execution is still running
				continue
			}
			ok := true
			for _, st := range sites[:2] {
				if !inst[st.file] || !strings.Contains(st.dir, e.Pkg) {
					ok = false
				}
			}
			if !ok {
				continue
			}
			inSource++
			orig := func(f string) string {
				for _, r := range e.Rewrite {
					if strings.HasSuffix(f, "_"+strings.ReplaceAll(r, "/", "_")) {
						return r
					}
				}
				return f
			}
			a, bb := orig(sites[0].file)+":"+sites[0].fn, orig(sites[1].file)+":"+sites[1].fn
			if bb < a {
				a, bb = bb, a
			}
			sig := e.ID + "/data-race/" + a + "~" + bb
			if _, dup := bySig[sig]; !dup {
				bySig[sig] = strings.TrimSpace(blk)
			}
		}
	}
	info["race_reports_total"] = reports
	info["race_reports_in_instrumented_source"] = inSource
	var vs []violation
	for sig, blk := range bySig {
		cs, _ := json.Marshal(map[string]any{"race_pass": true, "report": blk,
			"rerun": "VERIF_FREE=1 pass of " + e.ID + " (free-running schedules are not replayable; re-run the check)"})
		vs = append(vs, violation{Sig: sig, What: "data race between two accesses in the instrumented source (free-running -race pass):\n" + trunc(blk, 1200), Part: "race-pass", Case: cs, Reruns: 1})
	}
	return info, vs
}

func racePassBudget(e entry, tier string) int {
	if s := os.Getenv("VERIF_RACE_S"); s != "" {
		if v, err := strconv.Atoi(s); err == nil {
			return v
		}
	}
	if tier == "thorough" {
		return e.RacePass[1]
	}
	return e.RacePass[0]
}

type raceSite struct{ fn, file, dir string }

// raceSites returns the top frame of each access of one race report.
func raceSites(blk string) []raceSite {
	var sites []raceSite
	lines := strings.Split(blk, "\n")
	for i := 0; i < len(lines); i++ {
		l := strings.TrimSpace(lines[i])
		isAccess := (strings.HasPrefix(l, "Read at") || strings.HasPrefix(l, "Write at") || strings.HasPrefix(l, "Previous read at") || strings.HasPrefix(l, "Previous write at") ||
			strings.HasPrefix(l, "Atomic") || strings.HasPrefix(l, "Previous atomic"))
		if !isAccess || i+2 >= len(lines) {
			continue
		}
		fn := strings.TrimSpace(lines[i+1])
		if j := strings.LastIndex(fn, "("); j > 0 {
			fn = fn[:j]
		}
		if j := strings.LastIndex(fn, "/"); j >= 0 {
			fn = fn[j+1:]
		}
		loc := strings.TrimSpace(lines[i+2])
		if j := strings.Index(loc, " "); j > 0 {
			loc = loc[:j]
		}
		if j := strings.LastIndex(loc, ":"); j > 0 {
			loc = loc[:j]
		}
		sites = append(sites, raceSite{fn: strings.ReplaceAll(fn, " ", ""), file: filepath.Base(loc), dir: filepath.Dir(loc)})
	}
	return sites
}

// confirmCrash re-runs the breadcrumb case of a died shard in fresh
// processes; it is a violation only if the process dies every time.
func confirmCrash(e entry, bin, wd, tier string, seed int64, r shardRun) (violation, bool) {
	if !strings.Contains(r.output, "panic:") && !strings.Contains(r.output, "fatal error:") {
		return violation{}, false
	}
	crumbFile := filepath.Join(wd, fmt.Sprintf("crash%d.json", r.idx))
	os.WriteFile(crumbFile, r.crumb, 0o644)
	for i := 0; i < 5; i++ {
		rr := runShards(e, bin, wd, tier, seed, crumbFile)
		if !rr[0].died {
			return violation{}, false
		}
	}
	var rf struct {
		Sig  string          `json:"signature"`
		Part string          `json:"part"`
		Case json.RawMessage `json:"case"`
	}
	json.Unmarshal(r.crumb, &rf)
	site := crashSite(r.output)
	return violation{Sig: rf.Sig + ":" + site, What: "process crashed (5/5 re-runs): " + tail(firstPanic(r.output), 1500), Part: rf.Part, Case: rf.Case, Reruns: 5}, true
}

func firstPanic(out string) string {
	i := strings.Index(out, "panic:")
	if j := strings.Index(out, "fatal error:"); j >= 0 && (i < 0 || j < i) {
		i = j
	}
	if i < 0 {
		return out
	}
	s := out[i:]
	if len(s) > 1500 {
		s = s[:1500]
	}
	return s
}

func crashSite(out string) string {
	s := firstPanic(out)
	if strings.Contains(s, "vx: watchdog") {
		return "hang"
	}
	for _, l := range strings.Split(s, "\n") {
		if strings.HasPrefix(l, "golang.org/x/net/") && !strings.Contains(l, "zzverif") && !strings.Contains(l, "zz_verif") {
			if j := strings.LastIndex(l, "("); j > 0 {
				l = l[:j]
			}
			return strings.TrimPrefix(l, "golang.org/x/net/")
		}
	}
	return "unknown"
}

func round1(f float64) float64 { return float64(int(f*10+0.5)) / 10 }

func uniq(l []string) []string {
	seen := map[string]bool{}
	var out []string
	for _, s := range l {
		if !seen[s] {
			seen[s] = true
			out = append(out, s)
		}
	}
	return out
}

func trunc(s string, n int) string {
	if len(s) > n {
		return s[:n] + "…"
	}
	return s
}

// ---- manifest -----------------------------------------------------------------

func writeManifest(r registry) {
	type lc struct {
		Category  string `json:"category"`
		Text      string `json:"text"`
		DesignRef string `json:"design_ref,omitempty"`
	}
	type chk struct {
		PropertyID string `json:"property_id"`
		QuickCmd   string `json:"quick_cmd"`
		Thorough   string `json:"thorough_cmd"`
		Evidence   string `json:"evidence_file"`
		Replay     string `json:"replay_cmd_template"`
		Engine     string `json:"engine"`
		Level      lc     `json:"level_claimed"`
		Note       string `json:"level_note"`
		Technique  string `json:"technique"`
	}
	var checks []chk
	engines := map[string][]string{}
	for _, e := range r.Checks {
		eng := e.Engine
		if eng == "" {
			eng = "vx"
		}
		engines[eng] = append(engines[eng], e.ID)
		checks = append(checks, chk{
			PropertyID: e.ID,
			QuickCmd:   "./check " + e.ID + " quick",
			Thorough:   "./check " + e.ID + " thorough",
			Evidence:   "/verif/evidence/" + e.ID + ".json",
			Replay:     "./check " + e.ID + " --replay {path}",
			Engine:     eng,
			Level:      lc{Category: e.Level, Text: e.Text, DesignRef: e.DesignRef},
			Note:       e.Note,
			Technique:  e.Technique,
		})
	}
	var engs []map[string]any
	desc := map[string][2]string{
		"vx":     {"engine/vx", "bounded exhaustive explorer on the real code: operation-sequence BFS with reference model and state dedup (SEQ), complete input enumeration (IN), event-level endpoint exploration under testing/synctest (EV), lasso enumeration; sharded over processes/goroutines"},
		"vsched": {"engine/vsched", "cooperative scheduler + preemption-bounded DFS over all interleavings of a small thread harness; the explored code is the repository source instrumented at check time by engine/cmd/vrewrite"},
	}
	var names []string
	for k := range engines {
		names = append(names, k)
	}
	sort.Strings(names)
	for _, k := range names {
		d := desc[k]
		engs = append(engs, map[string]any{"name": k, "path": d[0], "serves_properties": engines[k], "kind_free_text": d[1]})
	}
	na := r.NotApplicable
	if na == nil {
		na = []map[string]string{}
	}
	// every property that is neither claimed nor listed gets a default entry
	claimed := map[string]bool{}
	for _, e := range r.Checks {
		claimed[e.ID] = true
	}
	for _, n := range na {
		claimed[n["property_id"]] = true
	}
	if pb, err := os.ReadFile(filepath.Join(verifDir, "properties.jsonl")); err == nil {
		for _, l := range strings.Split(string(pb), "\n") {
			var p struct {
				ID string `json:"id"`
			}
			if json.Unmarshal([]byte(l), &p) == nil && p.ID != "" && !claimed[p.ID] {
				na = append(na, map[string]string{"property_id": p.ID, "reason": "not claimed: the harness designed in DESIGN.md §3 for this property has not been built yet; no other technique is substituted"})
			}
		}
	}
	m := map[string]any{
		"version":   1,
		"setup_cmd": "./setup.sh",
		"hooks": map[string]any{
			"guard":            "verif",
			"enable":           "no source hooks: all instrumentation is delivered at check time through `go test -overlay` (white-box _test.go files in the package under test, the explorer as a virtual internal package, and for C29/C58 source files mechanically instrumented by vrewrite); the build tag `verif` is reserved and unused",
			"baseline_off_cmd": "cd /repo && go test -mod=mod -json -vet=off -count=1 -timeout 25m ./...",
			"source_commits":   []string{},
			"add_only":         true,
		},
		"engines":        engs,
		"checks":         checks,
		"not_applicable": na,
		"notes":          "Every check is `./check <ID> quick|thorough`; it rebuilds the harness test binary from /repo's working tree, explores, rewrites evidence/<ID>.json and prints VIOLATION / KNOWN-FINDING lines. Known findings are matched by signature against known_findings.txt. See DESIGN.md.",
	}
	b, _ := json.MarshalIndent(m, "", " ")
	// written to a temporary file and renamed: several agents may regenerate
	// the manifest at the same time and a reader must never see a torn file
	tmp := filepath.Join(verifDir, fmt.Sprintf(".MANIFEST.json.%d", os.Getpid()))
	err := os.WriteFile(tmp, append(b, '\n'), 0o644)
	if err == nil {
		err = os.Rename(tmp, filepath.Join(verifDir, "MANIFEST.json"))
	}
	if err != nil {
		die(2, "manifest: %v", err)
	}
}

func main() {
	if len(os.Args) < 2 {
		die(2, "usage: vcheck <ID> quick|thorough | <ID> --replay file | manifest | warm | list")
	}
	r := loadRegistry()
	switch os.Args[1] {
	case "manifest":
		writeManifest(r)
		return
	case "list":
		for _, e := range r.Checks {
			fmt.Println(e.ID, e.Pkg, e.Level)
		}
		return
	case "warm":
		// Build every harness binary once so that later checks hit the build cache.
		sem := make(chan struct{}, 4)
		var wg sync.WaitGroup
		fail := false
		for _, e := range r.Checks {
			wg.Add(1)
			sem <- struct{}{}
			go func(e entry) {
				defer wg.Done()
				defer func() { <-sem }()
				if _, err := buildTestBinary(e, workDir(e.ID)); err != nil {
					fmt.Fprintf(os.Stderr, "warm %s: %v\n", e.ID, err)
					fail = true
				}
				for _, sb := range e.Sub {
					sb.ID = e.ID
					if _, err := buildTestBinary(sb, workDir(e.ID+"."+sb.Name)); err != nil {
						fmt.Fprintf(os.Stderr, "warm %s/%s: %v\n", e.ID, sb.Name, err)
						fail = true
					}
				}
			}(e)
		}
		wg.Wait()
		if fail {
			os.Exit(2)
		}
		return
	}
	id := os.Args[1]
	var e *entry
	for i := range r.Checks {
		if r.Checks[i].ID == id {
			e = &r.Checks[i]
		}
	}
	if e == nil {
		die(2, "unknown check %q", id)
	}
	if len(os.Args) >= 4 && os.Args[2] == "--replay" {
		p, _ := filepath.Abs(os.Args[3])
		os.Exit(runCheck(*e, envOr("VERIF_TIER", "quick"), p))
	}
	tier := "quick"
	if len(os.Args) >= 3 {
		tier = os.Args[2]
	}
	if tier != "quick" && tier != "thorough" {
		die(2, "tier must be quick or thorough")
	}
	os.Exit(runCheck(*e, tier, ""))
}

func envOr(k, d string) string {
	if v := os.Getenv(k); v != "" {
		return v
	}
	return d
}

func sigHash(sig string) string {
	s := sha256.Sum256([]byte(sig))
	return hex.EncodeToString(s[:6])
}
