package main

// Globals mode (-globals): make package-level mutable state visible to the
// controlled scheduler.
//
// A package-level variable counts as *written* when, outside init functions
// and package-level initialisers, it (or an element/field reached from it
// without a call) is assigned, incremented, range-assigned, has its address
// taken, is sliced, or is the destination of copy/append; variables whose
// declaration mentions package sync count as well. Before every statement of
// a function body that mentions a written variable (loop and branch headers
// included, nested function literals handled on their own) a scheduling
// point vsched.Touch("name") is inserted, so the explorer interleaves other
// threads between any two statements touching shared package state. Each
// file also gets a function that re-runs the declarations of its written
// variables; zzResetGlobals calls them all so that every execution of the
// explorer starts from the package's initial state (lazily built tables are
// rebuilt in every execution).
//
// Resolution is syntactic (go/parser's identifier resolution): an identifier
// refers to a package-level variable if it is unresolved in its file or
// resolves to a top-level var spec, and is not a selector's field name, a
// composite-literal key or a label. Mutation through method calls on a
// package-level value and accesses to heap objects merely reachable from one
// are not scheduling points (stated in the evidence of the checks using it).

import (
	"go/ast"
	"go/token"
	"sort"
	"strconv"
	"strings"
)

type globalsInfo struct {
	vars    map[string]bool         // all package-level variable names
	written map[string]bool         // the written ones
	top     map[*ast.ValueSpec]bool // top-level var specs
	specOf  map[string]*ast.ValueSpec
	noReset map[string]bool   // set up by init functions or //go:embed: never re-initialised
	embeds  map[string]string // variable -> its //go:embed directive line
	called  map[string]bool   // receiver of a method call somewhere
	taint   map[string]bool   // locals of the function being instrumented that alias a written variable
}

func collectGlobals(files []*ast.File) *globalsInfo {
	g := &globalsInfo{vars: map[string]bool{}, written: map[string]bool{}, top: map[*ast.ValueSpec]bool{}, specOf: map[string]*ast.ValueSpec{}, noReset: map[string]bool{}, embeds: map[string]string{}, called: map[string]bool{}, taint: map[string]bool{}}
	for _, f := range files {
		for _, d := range f.Decls {
			gd, ok := d.(*ast.GenDecl)
			if !ok || gd.Tok != token.VAR {
				continue
			}
			for _, sp := range gd.Specs {
				vs := sp.(*ast.ValueSpec)
				g.top[vs] = true
				syncy := mentionsSync(vs)
				for _, doc := range []*ast.CommentGroup{gd.Doc, vs.Doc} {
					if doc == nil {
						continue
					}
					for _, cm := range doc.List {
						if strings.HasPrefix(cm.Text, "//go:embed ") && len(vs.Names) == 1 {
							g.embeds[vs.Names[0].Name] = cm.Text
							g.noReset[vs.Names[0].Name] = true
						}
					}
				}
				for _, n := range vs.Names {
					if n.Name == "_" {
						continue
					}
					g.vars[n.Name] = true
					g.specOf[n.Name] = vs
					if syncy {
						g.written[n.Name] = true
					}
				}
			}
		}
	}
	for _, f := range files {
		for _, d := range f.Decls {
			switch x := d.(type) {
			case *ast.FuncDecl:
				if x.Recv == nil && x.Name.Name == "init" {
					// state set up by init is not re-created by zzResetGlobals
					if x.Body != nil {
						save := g.written
						g.written = map[string]bool{}
						g.findWrites(x.Body)
						for n := range g.written {
							g.noReset[n] = true
						}
						g.written = save
					}
					continue
				}
				if x.Body != nil {
					g.findWrites(x.Body)
				}
			case *ast.GenDecl:
				// function literals inside initialisers run later (e.g. sync.Pool.New)
				ast.Inspect(x, func(n ast.Node) bool {
					if fl, ok := n.(*ast.FuncLit); ok {
						g.findWrites(fl.Body)
						return false
					}
					return true
				})
			}
		}
	}
	for n := range g.called {
		if !g.written[n] {
			g.written[n] = true
			g.noReset[n] = true
		}
	}
	return g
}

func mentionsSync(vs *ast.ValueSpec) bool {
	found := false
	chk := func(n ast.Node) bool {
		if se, ok := n.(*ast.SelectorExpr); ok {
			if id, ok := se.X.(*ast.Ident); ok && id.Name == "sync" && id.Obj == nil {
				found = true
			}
		}
		if _, ok := n.(*ast.FuncLit); ok {
			return false
		}
		return true
	}
	if vs.Type != nil {
		ast.Inspect(vs.Type, chk)
	}
	for _, v := range vs.Values {
		ast.Inspect(v, chk)
	}
	return found
}

// isGlobal reports whether id denotes a package-level variable.
func (g *globalsInfo) isGlobal(id *ast.Ident) bool {
	if id == nil || !g.vars[id.Name] {
		return false
	}
	if id.Obj == nil {
		return true
	}
	if id.Obj.Kind != ast.Var {
		return false
	}
	vs, ok := id.Obj.Decl.(*ast.ValueSpec)
	return ok && g.top[vs]
}

func rootIdent(e ast.Expr) *ast.Ident {
	for {
		switch x := e.(type) {
		case *ast.Ident:
			return x
		case *ast.ParenExpr:
			e = x.X
		case *ast.IndexExpr:
			e = x.X
		case *ast.SelectorExpr:
			e = x.X
		case *ast.StarExpr:
			e = x.X
		case *ast.SliceExpr:
			e = x.X
		default:
			return nil
		}
	}
}

func (g *globalsInfo) markWrite(e ast.Expr) {
	if id := rootIdent(e); id != nil && g.isGlobal(id) {
		g.written[id.Name] = true
	}
}

func (g *globalsInfo) findWrites(body ast.Node) {
	ast.Inspect(body, func(n ast.Node) bool {
		switch x := n.(type) {
		case *ast.AssignStmt:
			if x.Tok != token.DEFINE {
				for _, l := range x.Lhs {
					g.markWrite(l)
				}
			}
		case *ast.IncDecStmt:
			g.markWrite(x.X)
		case *ast.RangeStmt:
			if x.Tok == token.ASSIGN {
				if x.Key != nil {
					g.markWrite(x.Key)
				}
				if x.Value != nil {
					g.markWrite(x.Value)
				}
			}
		case *ast.UnaryExpr:
			if x.Op == token.AND {
				g.markWrite(x.X)
			}
		case *ast.SliceExpr:
			g.markWrite(x.X)
		case *ast.CallExpr:
			if se, ok := x.Fun.(*ast.SelectorExpr); ok {
				// a method call on a package-level value may mutate it (a hoisted
				// bytes.Buffer, a cache type): scheduling points, but the value is
				// not re-initialised unless it is also written directly
				if id := rootIdent(se.X); id != nil && g.isGlobal(id) {
					g.called[id.Name] = true
				}
			}
			if id, ok := x.Fun.(*ast.Ident); ok && (id.Name == "copy" || id.Name == "append" || id.Name == "clear" || id.Name == "delete") && id.Obj == nil && len(x.Args) > 0 {
				g.markWrite(x.Args[0])
			}
		}
		return true
	})
}

// mentions returns the name of a written package-level variable mentioned in
// n (not looking into nested function literals), or "".
func (g *globalsInfo) mentions(n ast.Node) string {
	if n == nil {
		return ""
	}
	switch v := n.(type) {
	case ast.Expr:
		if v == nil {
			return ""
		}
	case ast.Stmt:
		if v == nil {
			return ""
		}
	}
	name := ""
	var visit func(n ast.Node) bool
	visit = func(n ast.Node) bool {
		if name != "" {
			return false
		}
		switch x := n.(type) {
		case *ast.FuncLit:
			return false
		case *ast.SelectorExpr:
			ast.Inspect(x.X, visit)
			return false
		case *ast.KeyValueExpr:
			if _, ok := x.Key.(*ast.Ident); !ok {
				ast.Inspect(x.Key, visit)
			}
			ast.Inspect(x.Value, visit)
			return false
		case *ast.BranchStmt:
			return false
		case *ast.LabeledStmt:
			ast.Inspect(x.Stmt, visit)
			return false
		case *ast.Ident:
			if g.written[x.Name] && g.isGlobal(x) {
				name = x.Name
			} else if g.taint[x.Name] && x.Obj != nil && !g.isGlobal(x) {
				name = x.Name + "(alias)"
			}
		}
		return true
	}
	ast.Inspect(n, visit)
	return name
}

func touchStmt(name string) ast.Stmt {
	return &ast.ExprStmt{X: &ast.CallExpr{Fun: sel("vsched", "Touch"), Args: []ast.Expr{&ast.BasicLit{Kind: token.STRING, Value: strconv.Quote(name)}}}}
}

// instrumentList inserts scheduling points into a statement list.
func (g *globalsInfo) instrumentList(l []ast.Stmt) []ast.Stmt {
	var out []ast.Stmt
	for _, s := range l {
		if name := g.headerMention(s); name != "" {
			out = append(out, touchStmt(name))
		}
		g.instrumentInside(s)
		out = append(out, s)
	}
	return out
}

// headerMention: the part of s that is evaluated when control reaches s
// (whole simple statements; init/condition/tag of compound ones).
func (g *globalsInfo) headerMention(s ast.Stmt) string {
	first := func(ns ...ast.Node) string {
		for _, n := range ns {
			if n == nil {
				continue
			}
			if m := g.mentions(n); m != "" {
				return m
			}
		}
		return ""
	}
	switch x := s.(type) {
	case *ast.LabeledStmt:
		return g.headerMention(x.Stmt)
	case *ast.BlockStmt:
		return ""
	case *ast.IfStmt:
		var ns []ast.Node
		if x.Init != nil {
			ns = append(ns, x.Init)
		}
		ns = append(ns, x.Cond)
		// else-if conditions are evaluated without passing another statement boundary
		for e := x.Else; e != nil; {
			ei, ok := e.(*ast.IfStmt)
			if !ok {
				break
			}
			if ei.Init != nil {
				ns = append(ns, ei.Init)
			}
			ns = append(ns, ei.Cond)
			e = ei.Else
		}
		return first(ns...)
	case *ast.ForStmt:
		var ns []ast.Node
		if x.Init != nil {
			ns = append(ns, x.Init)
		}
		if x.Cond != nil {
			ns = append(ns, x.Cond)
		}
		return first(ns...)
	case *ast.RangeStmt:
		return first(x.X)
	case *ast.SwitchStmt:
		var ns []ast.Node
		if x.Init != nil {
			ns = append(ns, x.Init)
		}
		if x.Tag != nil {
			ns = append(ns, x.Tag)
		}
		for _, c := range x.Body.List {
			for _, e := range c.(*ast.CaseClause).List {
				ns = append(ns, e)
			}
		}
		return first(ns...)
	case *ast.TypeSwitchStmt:
		var ns []ast.Node
		if x.Init != nil {
			ns = append(ns, x.Init)
		}
		ns = append(ns, x.Assign)
		return first(ns...)
	case *ast.SelectStmt:
		return ""
	default:
		return g.mentions(s)
	}
}

// instrumentInside recurses into the bodies of s (and into function literals
// anywhere in s).
func (g *globalsInfo) instrumentInside(s ast.Stmt) {
	switch x := s.(type) {
	case *ast.LabeledStmt:
		g.instrumentInside(x.Stmt)
		return
	case *ast.BlockStmt:
		x.List = g.instrumentList(x.List)
		return
	case *ast.IfStmt:
		g.funcLitsIn(x.Init)
		g.funcLitsIn(x.Cond)
		x.Body.List = g.instrumentList(x.Body.List)
		if x.Else != nil {
			g.instrumentInside(x.Else)
		}
		return
	case *ast.ForStmt:
		g.funcLitsIn(x.Init)
		g.funcLitsIn(x.Cond)
		g.funcLitsIn(x.Post)
		x.Body.List = g.instrumentList(x.Body.List)
		// the condition and post statement are re-evaluated on every iteration
		var ns []ast.Node
		if x.Cond != nil {
			ns = append(ns, x.Cond)
		}
		if x.Post != nil {
			ns = append(ns, x.Post)
		}
		for _, n := range ns {
			if m := g.mentions(n); m != "" {
				x.Body.List = append(x.Body.List, touchStmt(m))
				break
			}
		}
		return
	case *ast.RangeStmt:
		g.funcLitsIn(x.X)
		x.Body.List = g.instrumentList(x.Body.List)
		return
	case *ast.SwitchStmt:
		g.funcLitsIn(x.Init)
		g.funcLitsIn(x.Tag)
		for _, c := range x.Body.List {
			cc := c.(*ast.CaseClause)
			cc.Body = g.instrumentList(cc.Body)
		}
		return
	case *ast.TypeSwitchStmt:
		g.funcLitsIn(x.Init)
		g.funcLitsIn(x.Assign)
		for _, c := range x.Body.List {
			cc := c.(*ast.CaseClause)
			cc.Body = g.instrumentList(cc.Body)
		}
		return
	case *ast.SelectStmt:
		for _, c := range x.Body.List {
			cc := c.(*ast.CommClause)
			cc.Body = g.instrumentList(cc.Body)
		}
		return
	default:
		g.funcLitsIn(s)
	}
}

func (g *globalsInfo) funcLitsIn(n ast.Node) {
	if n == nil {
		return
	}
	switch v := n.(type) {
	case ast.Expr:
		if v == nil {
			return
		}
	case ast.Stmt:
		if v == nil {
			return
		}
	}
	ast.Inspect(n, func(n ast.Node) bool {
		if fl, ok := n.(*ast.FuncLit); ok {
			fl.Body.List = g.instrumentList(fl.Body.List)
			return false
		}
		return true
	})
}

// aliases returns the local variables of body that are assigned an expression
// denoting the storage of a written package-level variable (x := &g,
// x := g[:n], and locals derived from such an x): what they refer to is the
// shared state itself, so their mentions are scheduling points too (per
// function, flow-insensitive).
func (g *globalsInfo) aliases(body ast.Node) map[string]bool {
	t := map[string]bool{}
	// Only expressions that denote the variable's own storage create an
	// alias: its address (&g, &g.f, &g[i]) or a slice of it (g[:n]). A plain
	// copy (x := g) of a pointer, map or slice header refers to heap objects
	// reachable from g, which are outside this instrumentation by design
	// (and tainting them makes every statement of e.g. a table-building loop
	// a scheduling point).
	rooted := func(e ast.Expr) bool {
		storage := false
		for {
			switch x := e.(type) {
			case *ast.UnaryExpr:
				if x.Op != token.AND {
					return false
				}
				storage = true
				e = x.X
				continue
			case *ast.ParenExpr:
				e = x.X
				continue
			case *ast.SliceExpr:
				storage = true
				e = x.X
				continue
			}
			break
		}
		id := rootIdent(e)
		if id == nil {
			return false
		}
		if t[id.Name] && id.Obj != nil && !g.isGlobal(id) {
			return true // derived from an alias (s2 := s[:0], p := s)
		}
		return storage && g.written[id.Name] && g.isGlobal(id)
	}
	for pass := 0; pass < 2; pass++ {
		ast.Inspect(body, func(n ast.Node) bool {
			switch x := n.(type) {
			case *ast.AssignStmt:
				if len(x.Lhs) == len(x.Rhs) {
					for i, r := range x.Rhs {
						if id, ok := x.Lhs[i].(*ast.Ident); ok && id.Name != "_" && !g.isGlobal(id) && rooted(r) {
							t[id.Name] = true
						}
					}
				}
			case *ast.ValueSpec:
				if len(x.Names) == len(x.Values) {
					for i, r := range x.Values {
						if x.Names[i].Name != "_" && rooted(r) {
							t[x.Names[i].Name] = true
						}
					}
				}
			}
			return true
		})
	}
	return t
}

// instrumentFile inserts the scheduling points.
func (g *globalsInfo) instrumentFile(f *ast.File) {
	for _, d := range f.Decls {
		switch x := d.(type) {
		case *ast.FuncDecl:
			if x.Body == nil || (x.Recv == nil && x.Name.Name == "init") {
				continue
			}
			g.taint = g.aliases(x.Body)
			x.Body.List = g.instrumentList(x.Body.List)
			g.taint = map[string]bool{}
		case *ast.GenDecl:
			if x.Tok != token.VAR {
				continue
			}
			for _, sp := range x.Specs {
				for _, v := range sp.(*ast.ValueSpec).Values {
					g.funcLitsIn(v)
				}
			}
		}
	}
}

// resetStmts returns the statements that re-run the declarations of this
// file's written variables (call it after all other rewriting: the
// initialiser expressions are shared with the declarations).
func (g *globalsInfo) resetStmts(f *ast.File) []ast.Stmt {
	var reset []ast.Stmt
	for _, d := range f.Decls {
		x, ok := d.(*ast.GenDecl)
		if !ok || x.Tok != token.VAR {
			continue
		}
		for _, sp := range x.Specs {
			vs := sp.(*ast.ValueSpec)
			any := false
			for _, n := range vs.Names {
				if g.written[n.Name] {
					any = true
				}
			}
			for _, n := range vs.Names {
				if g.noReset[n.Name] {
					any = false
				}
			}
			if !any {
				continue
			}
			if len(vs.Values) > 0 {
				as := &ast.AssignStmt{Tok: token.ASSIGN}
				for _, n := range vs.Names {
					as.Lhs = append(as.Lhs, ast.NewIdent(n.Name))
				}
				as.Rhs = append(as.Rhs, vs.Values...)
				reset = append(reset, as)
			} else if vs.Type != nil {
				for _, n := range vs.Names {
					if n.Name == "_" {
						continue
					}
					reset = append(reset, &ast.AssignStmt{Tok: token.ASSIGN, Lhs: []ast.Expr{ast.NewIdent(n.Name)},
						Rhs: []ast.Expr{&ast.StarExpr{X: &ast.CallExpr{Fun: ast.NewIdent("new"), Args: []ast.Expr{vs.Type}}}}})
				}
			}
		}
	}
	return reset
}

// notReset lists written variables that zzResetGlobals leaves alone.
func (g *globalsInfo) notReset() []string {
	var l []string
	for n := range g.written {
		if g.noReset[n] {
			l = append(l, n)
		}
	}
	sort.Strings(l)
	return l
}

func (g *globalsInfo) writtenNames() []string {
	var l []string
	for n := range g.written {
		l = append(l, n)
	}
	sort.Strings(l)
	return l
}
