package main

func main() {}
