// vrewrite instruments Go source files for the vsched controlled scheduler.
//
//	vrewrite -out DIR -pkg NAME file.go...
//
// It rewrites, by syntax alone:
//
//	make(chan T, n)      -> vsched.Make[T](n)
//	chan T (any dir)     -> *vsched.Chan[T]
//	c <- v               -> c.Send(v)
//	<-c                  -> c.Recv()        (v, ok := <-c -> c.Recv2())
//	close(c)             -> c.Close()
//	select { ... }       -> switch vsched.Select(hasDefault, cases...) { case i: ... }
//	go f(x)              -> vsched.Go(func() { f(x) })
//	import "sync"        -> vsync shim;  import "context" -> vctx shim
//
// Anything it does not understand (receive with assignment inside select,
// range over a channel, len/cap of a channel) is either rejected here or fails
// to type-check against the shim, so the build breaks loudly instead of
// exploring a program that differs from the source. Comments are dropped.
package main

import (
	"bytes"
	"flag"
	"fmt"
	"go/ast"
	"go/format"
	"go/parser"
	"go/token"
	"os"
	"path/filepath"
	"strconv"
	"strings"
)

const (
	vschedPath = "golang.org/x/net/internal/zzverif/vsched"
	vsyncPath  = "golang.org/x/net/internal/zzverif/vsync"
	vctxPath   = "golang.org/x/net/internal/zzverif/vctx"
)

func fatal(f string, a ...any) {
	fmt.Fprintf(os.Stderr, "vrewrite: "+f+"\n", a...)
	os.Exit(1)
}

func sel(x, name string) ast.Expr {
	return &ast.SelectorExpr{X: ast.NewIdent(x), Sel: ast.NewIdent(name)}
}

type rewriter struct {
	fset *token.FileSet
	used bool
	file string
}

func (r *rewriter) chanType(elem ast.Expr) ast.Expr {
	r.used = true
	return &ast.StarExpr{X: &ast.IndexExpr{X: sel("vsched", "Chan"), Index: elem}}
}

// expr rewrites an expression tree bottom-up.
func (r *rewriter) expr(e ast.Expr) ast.Expr {
	if e == nil {
		return nil
	}
	switch x := e.(type) {
	case *ast.ChanType:
		return r.chanType(r.expr(x.Value))
	case *ast.UnaryExpr:
		x.X = r.expr(x.X)
		if x.Op == token.ARROW {
			return &ast.CallExpr{Fun: &ast.SelectorExpr{X: x.X, Sel: ast.NewIdent("Recv")}}
		}
		return x
	case *ast.CallExpr:
		if id, ok := x.Fun.(*ast.Ident); ok {
			switch id.Name {
			case "make":
				if len(x.Args) >= 1 {
					if ct, ok := x.Args[0].(*ast.ChanType); ok {
						r.used = true
						n := ast.Expr(&ast.BasicLit{Kind: token.INT, Value: "0"})
						if len(x.Args) == 2 {
							n = r.expr(x.Args[1])
						}
						return &ast.CallExpr{Fun: &ast.IndexExpr{X: sel("vsched", "Make"), Index: r.expr(ct.Value)}, Args: []ast.Expr{n}}
					}
				}
			case "close":
				if len(x.Args) == 1 {
					return &ast.CallExpr{Fun: &ast.SelectorExpr{X: r.expr(x.Args[0]), Sel: ast.NewIdent("Close")}}
				}
			case "len", "cap":
				// left alone: on a *vsched.Chan this does not type-check (intended)
			}
		}
		x.Fun = r.expr(x.Fun)
		for i := range x.Args {
			x.Args[i] = r.expr(x.Args[i])
		}
		return x
	case *ast.ParenExpr:
		x.X = r.expr(x.X)
		return x
	case *ast.SelectorExpr:
		x.X = r.expr(x.X)
		return x
	case *ast.StarExpr:
		x.X = r.expr(x.X)
		return x
	case *ast.BinaryExpr:
		x.X, x.Y = r.expr(x.X), r.expr(x.Y)
		return x
	case *ast.IndexExpr:
		x.X, x.Index = r.expr(x.X), r.expr(x.Index)
		return x
	case *ast.IndexListExpr:
		x.X = r.expr(x.X)
		for i := range x.Indices {
			x.Indices[i] = r.expr(x.Indices[i])
		}
		return x
	case *ast.SliceExpr:
		x.X, x.Low, x.High, x.Max = r.expr(x.X), r.expr(x.Low), r.expr(x.High), r.expr(x.Max)
		return x
	case *ast.TypeAssertExpr:
		x.X, x.Type = r.expr(x.X), r.expr(x.Type)
		return x
	case *ast.KeyValueExpr:
		x.Key, x.Value = r.expr(x.Key), r.expr(x.Value)
		return x
	case *ast.CompositeLit:
		x.Type = r.expr(x.Type)
		for i := range x.Elts {
			x.Elts[i] = r.expr(x.Elts[i])
		}
		return x
	case *ast.FuncLit:
		r.funcType(x.Type)
		r.block(x.Body)
		return x
	case *ast.ArrayType:
		x.Len, x.Elt = r.expr(x.Len), r.expr(x.Elt)
		return x
	case *ast.MapType:
		x.Key, x.Value = r.expr(x.Key), r.expr(x.Value)
		return x
	case *ast.StructType:
		r.fields(x.Fields)
		return x
	case *ast.InterfaceType:
		r.fields(x.Methods)
		return x
	case *ast.FuncType:
		r.funcType(x)
		return x
	case *ast.Ellipsis:
		x.Elt = r.expr(x.Elt)
		return x
	case *ast.Ident, *ast.BasicLit:
		return e
	default:
		fatal("%s: unsupported expression %T", r.file, e)
	}
	return e
}

func (r *rewriter) fields(fl *ast.FieldList) {
	if fl == nil {
		return
	}
	for _, f := range fl.List {
		f.Type = r.expr(f.Type)
	}
}

func (r *rewriter) funcType(ft *ast.FuncType) {
	if ft == nil {
		return
	}
	r.fields(ft.TypeParams)
	r.fields(ft.Params)
	r.fields(ft.Results)
}

func (r *rewriter) block(b *ast.BlockStmt) {
	if b == nil {
		return
	}
	for i := range b.List {
		b.List[i] = r.stmt(b.List[i])
	}
}

func (r *rewriter) stmts(l []ast.Stmt) []ast.Stmt {
	for i := range l {
		l[i] = r.stmt(l[i])
	}
	return l
}

func (r *rewriter) stmt(s ast.Stmt) ast.Stmt {
	if s == nil {
		return nil
	}
	switch x := s.(type) {
	case *ast.SendStmt:
		return &ast.ExprStmt{X: &ast.CallExpr{Fun: &ast.SelectorExpr{X: r.expr(x.Chan), Sel: ast.NewIdent("Send")}, Args: []ast.Expr{r.expr(x.Value)}}}
	case *ast.ExprStmt:
		x.X = r.expr(x.X)
		return x
	case *ast.AssignStmt:
		if len(x.Lhs) == 2 && len(x.Rhs) == 1 {
			if u, ok := x.Rhs[0].(*ast.UnaryExpr); ok && u.Op == token.ARROW {
				x.Rhs[0] = &ast.CallExpr{Fun: &ast.SelectorExpr{X: r.expr(u.X), Sel: ast.NewIdent("Recv2")}}
				for i := range x.Lhs {
					x.Lhs[i] = r.expr(x.Lhs[i])
				}
				return x
			}
		}
		for i := range x.Lhs {
			x.Lhs[i] = r.expr(x.Lhs[i])
		}
		for i := range x.Rhs {
			x.Rhs[i] = r.expr(x.Rhs[i])
		}
		return x
	case *ast.GoStmt:
		r.used = true
		call := r.expr(x.Call).(*ast.CallExpr)
		return &ast.ExprStmt{X: &ast.CallExpr{Fun: sel("vsched", "Go"), Args: []ast.Expr{
			&ast.FuncLit{Type: &ast.FuncType{Params: &ast.FieldList{}}, Body: &ast.BlockStmt{List: []ast.Stmt{&ast.ExprStmt{X: call}}}},
		}}}
	case *ast.DeferStmt:
		x.Call = r.expr(x.Call).(*ast.CallExpr)
		return x
	case *ast.ReturnStmt:
		for i := range x.Results {
			x.Results[i] = r.expr(x.Results[i])
		}
		return x
	case *ast.BlockStmt:
		r.block(x)
		return x
	case *ast.IfStmt:
		x.Init = r.stmt(x.Init)
		x.Cond = r.expr(x.Cond)
		r.block(x.Body)
		x.Else = r.stmt(x.Else)
		return x
	case *ast.ForStmt:
		x.Init = r.stmt(x.Init)
		x.Cond = r.expr(x.Cond)
		x.Post = r.stmt(x.Post)
		r.block(x.Body)
		return x
	case *ast.RangeStmt:
		x.Key, x.Value, x.X = r.expr(x.Key), r.expr(x.Value), r.expr(x.X)
		r.block(x.Body)
		return x
	case *ast.SwitchStmt:
		x.Init = r.stmt(x.Init)
		x.Tag = r.expr(x.Tag)
		for _, c := range x.Body.List {
			cc := c.(*ast.CaseClause)
			for i := range cc.List {
				cc.List[i] = r.expr(cc.List[i])
			}
			cc.Body = r.stmts(cc.Body)
		}
		return x
	case *ast.TypeSwitchStmt:
		x.Init = r.stmt(x.Init)
		x.Assign = r.stmt(x.Assign)
		for _, c := range x.Body.List {
			cc := c.(*ast.CaseClause)
			for i := range cc.List {
				cc.List[i] = r.expr(cc.List[i])
			}
			cc.Body = r.stmts(cc.Body)
		}
		return x
	case *ast.SelectStmt:
		return r.selectStmt(x)
	case *ast.LabeledStmt:
		x.Stmt = r.stmt(x.Stmt)
		return x
	case *ast.IncDecStmt:
		x.X = r.expr(x.X)
		return x
	case *ast.DeclStmt:
		r.genDecl(x.Decl.(*ast.GenDecl))
		return x
	case *ast.BranchStmt, *ast.EmptyStmt:
		return s
	default:
		fatal("%s: unsupported statement %T", r.file, s)
	}
	return s
}

func (r *rewriter) selectStmt(x *ast.SelectStmt) ast.Stmt {
	r.used = true
	hasDefault := false
	var cases []ast.Expr
	var clauses []ast.Stmt
	idx := 0
	for _, c := range x.Body.List {
		cc := c.(*ast.CommClause)
		body := r.stmts(cc.Body)
		if cc.Comm == nil {
			hasDefault = true
			clauses = append(clauses, &ast.CaseClause{List: []ast.Expr{&ast.UnaryExpr{Op: token.SUB, X: &ast.BasicLit{Kind: token.INT, Value: "1"}}}, Body: body})
			continue
		}
		switch cm := cc.Comm.(type) {
		case *ast.ExprStmt:
			u, ok := cm.X.(*ast.UnaryExpr)
			if !ok || u.Op != token.ARROW {
				fatal("%s: unsupported select communication", r.file)
			}
			cases = append(cases, &ast.CallExpr{Fun: &ast.SelectorExpr{X: r.expr(u.X), Sel: ast.NewIdent("RecvCase")}})
		case *ast.SendStmt:
			cases = append(cases, &ast.CallExpr{Fun: &ast.SelectorExpr{X: r.expr(cm.Chan), Sel: ast.NewIdent("SendCase")}, Args: []ast.Expr{r.expr(cm.Value)}})
		default:
			fatal("%s:%v: select clause with assignment is not supported by vrewrite", r.file, r.fset.Position(cc.Pos()))
		}
		clauses = append(clauses, &ast.CaseClause{List: []ast.Expr{&ast.BasicLit{Kind: token.INT, Value: strconv.Itoa(idx)}}, Body: body})
		idx++
	}
	clauses = append(clauses, &ast.CaseClause{List: nil, Body: []ast.Stmt{
		&ast.ExprStmt{X: &ast.CallExpr{Fun: ast.NewIdent("panic"), Args: []ast.Expr{&ast.BasicLit{Kind: token.STRING, Value: `"vsched: unreachable select arm"`}}}},
	}})
	args := []ast.Expr{ast.NewIdent(strconv.FormatBool(hasDefault))}
	args = append(args, cases...)
	return &ast.SwitchStmt{
		Tag:  &ast.CallExpr{Fun: sel("vsched", "Select"), Args: args},
		Body: &ast.BlockStmt{List: clauses},
	}
}

func (r *rewriter) genDecl(d *ast.GenDecl) {
	for _, sp := range d.Specs {
		switch s := sp.(type) {
		case *ast.ValueSpec:
			s.Type = r.expr(s.Type)
			for i := range s.Values {
				s.Values[i] = r.expr(s.Values[i])
			}
		case *ast.TypeSpec:
			r.fields(s.TypeParams)
			s.Type = r.expr(s.Type)
		}
	}
}

// pureRewrite replaces sync.Once, sync.Pool, sync.Mutex and sync.RWMutex by
// the controlled shims and leaves everything else alone.
func pureRewrite(f *ast.File) {
	importsSync := false
	for _, im := range f.Imports {
		if p, _ := strconv.Unquote(im.Path.Value); p == "sync" && im.Name == nil {
			importsSync = true
		}
	}
	if !importsSync {
		return
	}
	ast.Inspect(f, func(n ast.Node) bool {
		se, ok := n.(*ast.SelectorExpr)
		if !ok {
			return true
		}
		id, ok := se.X.(*ast.Ident)
		if !ok || id.Name != "sync" || id.Obj != nil {
			return true
		}
		switch se.Sel.Name {
		case "Once", "Pool", "Mutex", "RWMutex":
			se.X = ast.NewIdent("zzvsync")
		}
		return false
	})
	imp := &ast.GenDecl{Tok: token.IMPORT, Specs: []ast.Spec{&ast.ImportSpec{Name: ast.NewIdent("zzvsync"), Path: &ast.BasicLit{Kind: token.STRING, Value: strconv.Quote(vsyncPath)}}}}
	keep := &ast.GenDecl{Tok: token.VAR, Specs: []ast.Spec{
		&ast.ValueSpec{Names: []*ast.Ident{ast.NewIdent("_")}, Type: sel("sync", "Locker")},
		&ast.ValueSpec{Names: []*ast.Ident{ast.NewIdent("_")}, Type: sel("zzvsync", "Mutex")},
	}}
	f.Decls = append([]ast.Decl{imp}, f.Decls...)
	f.Decls = append(f.Decls, keep)
}

// declaredIn reports whether f declares the package-level variable name.
func declaredIn(name string, f *ast.File) bool {
	for _, d := range f.Decls {
		if gd, ok := d.(*ast.GenDecl); ok && gd.Tok == token.VAR {
			for _, sp := range gd.Specs {
				for _, n := range sp.(*ast.ValueSpec).Names {
					if n.Name == name {
						return true
					}
				}
			}
		}
	}
	return false
}

func main() {
	out := flag.String("out", "", "output directory")
	pkg := flag.String("pkg", "", "package name of the output files")
	globals := flag.Bool("globals", false, "also insert scheduling points at accesses to written package-level variables and generate zzResetGlobals (see globals.go)")
	pure := flag.Bool("pure", false, "with -globals: leave channels, select, go statements and context alone (code whose concurrency is not exercised); only sync.Once/Pool/Mutex/RWMutex become controlled shims")
	flag.Parse()
	if *out == "" || *pkg == "" || flag.NArg() == 0 {
		fatal("usage: vrewrite -out DIR -pkg NAME file.go...")
	}
	var gi *globalsInfo
	parsed := map[string]*ast.File{}
	gfset := token.NewFileSet()
	if *globals {
		var all []*ast.File
		for _, path := range flag.Args() {
			f, err := parser.ParseFile(gfset, path, nil, parser.ParseComments)
			if err != nil {
				fatal("%v", err)
			}
			parsed[path] = f
			all = append(all, f)
		}
		gi = collectGlobals(all)
		fmt.Fprintf(os.Stderr, "vrewrite: written package-level variables: %v\n", gi.writtenNames())
	}
	var resetFuncs []string
	var embedList []string
	for fi, path := range flag.Args() {
		fset := token.NewFileSet()
		var f *ast.File
		if gi != nil {
			fset = gfset
			f = parsed[path]
			gi.instrumentFile(f)
		} else {
			var err error
			f, err = parser.ParseFile(fset, path, nil, parser.SkipObjectResolution|parser.ParseComments)
			if err != nil {
				fatal("%v", err)
			}
		}
		r := &rewriter{fset: fset, file: path}
		f.Name = ast.NewIdent(*pkg)
		f.Doc = nil
		for _, cg := range f.Comments {
			for _, cm := range cg.List {
				if strings.HasPrefix(cm.Text, "//go:embed") && gi != nil {
					continue // re-attached below, files mapped by vcheck
				}
				if strings.HasPrefix(cm.Text, "//go:embed") || strings.HasPrefix(cm.Text, "//go:linkname") {
					fatal("%s: %s directives are not carried over by vrewrite", path, strings.Fields(cm.Text)[0])
				}
			}
		}
		f.Comments = nil
		if *pure {
			pureRewrite(f)
		}
		// imports
		for _, im := range f.Imports {
			if *pure {
				break
			}
			p, _ := strconv.Unquote(im.Path.Value)
			switch p {
			case "sync":
				im.Name = ast.NewIdent("sync")
				im.Path.Value = strconv.Quote(vsyncPath)
			case "context":
				im.Name = ast.NewIdent("context")
				im.Path.Value = strconv.Quote(vctxPath)
			}
		}
		for _, d := range f.Decls {
			switch x := d.(type) {
			case *ast.GenDecl:
				x.Doc = nil
				if x.Tok != token.IMPORT && !*pure {
					r.genDecl(x)
				}
			case *ast.FuncDecl:
				x.Doc = nil
				if *pure {
					continue
				}
				r.fields(x.Recv)
				r.funcType(x.Type)
				r.block(x.Body)
			}
		}
		if gi != nil {
			if rs := gi.resetStmts(f); len(rs) > 0 {
				name := fmt.Sprintf("zzResetGlobals%d", fi)
				resetFuncs = append(resetFuncs, name)
				f.Decls = append(f.Decls, &ast.FuncDecl{Name: ast.NewIdent(name), Type: &ast.FuncType{Params: &ast.FieldList{}}, Body: &ast.BlockStmt{List: rs}})
			}
		}
		// always import vsched (blank use keeps it legal when unused)
		imp := &ast.GenDecl{Tok: token.IMPORT, Specs: []ast.Spec{&ast.ImportSpec{Path: &ast.BasicLit{Kind: token.STRING, Value: strconv.Quote(vschedPath)}}}}
		f.Decls = append([]ast.Decl{imp}, f.Decls...)
		use := &ast.GenDecl{Tok: token.VAR, Specs: []ast.Spec{&ast.ValueSpec{Names: []*ast.Ident{ast.NewIdent("_")}, Values: []ast.Expr{sel("vsched", "Yield")}}}}
		f.Decls = append(f.Decls, use)
		var buf bytes.Buffer
		if err := format.Node(&buf, token.NewFileSet(), f); err != nil {
			fatal("%s: %v", path, err)
		}
		// re-parse as a sanity check and to normalise formatting
		src, err := format.Source(buf.Bytes())
		if err != nil {
			fatal("%s: rewritten source does not parse: %v\n%s", path, err, buf.String())
		}
		if gi != nil {
			// re-attach //go:embed directives (comments were dropped) and list the patterns
			lines := strings.Split(string(src), "\n")
			var outl []string
			for _, ln := range lines {
				if strings.HasPrefix(ln, "var ") {
					f := strings.Fields(ln)
					if len(f) >= 2 {
						if d, ok := gi.embeds[f[1]]; ok && declaredIn(f[1], parsed[path]) {
							outl = append(outl, d)
							for _, pat := range strings.Fields(d)[1:] {
								embedList = append(embedList, filepath.Dir(path)+"\t"+pat)
							}
						}
					}
				}
				outl = append(outl, ln)
			}
			src = []byte(strings.Join(outl, "\n"))
		}
		rel := strings.TrimPrefix(filepath.Clean(path), "/")
		parts := strings.Split(rel, "/")
		if len(parts) > 3 {
			parts = parts[len(parts)-3:]
		}
		name := "zz_rw_" + strings.Join(parts, "_")
		if err := os.WriteFile(filepath.Join(*out, name), src, 0o644); err != nil {
			fatal("%v", err)
		}
	}
	if gi != nil {
		var b bytes.Buffer
		fmt.Fprintf(&b, "package %s\n\n// zzWrittenGlobals lists the package-level variables whose accesses are scheduling points.\nvar zzWrittenGlobals = %#v\n\n", *pkg, gi.writtenNames())
		fmt.Fprintf(&b, "// zzNotReset lists written variables that are set up by init functions or go:embed and therefore not re-initialised.\nvar zzNotReset = %#v\n\n", gi.notReset())
		if len(embedList) > 0 {
			os.WriteFile(filepath.Join(*out, "embed.list"), []byte(strings.Join(embedList, "\n")+"\n"), 0o644)
		}
		fmt.Fprintf(&b, "// zzResetGlobals restores the package's initial state.\nfunc zzResetGlobals() {\n")
		for _, n := range resetFuncs {
			fmt.Fprintf(&b, "\t%s()\n", n)
		}
		fmt.Fprintf(&b, "}\n")
		if err := os.WriteFile(filepath.Join(*out, "zz_rw_globals_reset.go"), b.Bytes(), 0o644); err != nil {
			fatal("%v", err)
		}
	}
}
