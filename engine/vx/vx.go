// Package vx is the explorer core shared by all verification harnesses.
//
// It is mapped into golang.org/x/net as internal/zzverif/vx through a
// `go test -overlay` file (the repository itself is untouched) and therefore
// imports only the standard library.
//
// A harness is a test function
//
//	func TestVerif_C24(t *testing.T) { vx.Run(t, "C24", func(c *vx.Ctx) { ... }) }
//
// that enumerates a bounded space completely (Enumerate, Seq) and reports, per
// case, failures through a *W. The driver (cmd/vcheck) runs the test binary
// once per shard, merges the per-shard result files into evidence and decides
// the exit status. Nothing in here samples: the seed only rotates which
// samples are written to the evidence.
package vx

import (
	"bytes"
	"crypto/sha256"
	"encoding/binary"
	"encoding/hex"
	"encoding/json"
	"fmt"
	"hash/fnv"
	"os"
	"runtime"
	"runtime/debug"
	"sort"
	"strconv"
	"strings"
	"sync"
	"sync/atomic"
	"testing"
	"time"
)

// Violation is one confirmed property violation, with the minimal case that
// shows it.
type Violation struct {
	Sig    string          `json:"signature"`
	What   string          `json:"what"`
	Part   string          `json:"part"`
	Case   json.RawMessage `json:"case"`
	Reruns int             `json:"reruns_confirming"`
}

// Result is what one shard writes to VERIF_OUT.
type Result struct {
	ID           string            `json:"id"`
	Tier         string            `json:"tier"`
	Seed         int64             `json:"seed"`
	Shard        int               `json:"shard"`
	Shards       int               `json:"shards"`
	Evaluations  int64             `json:"evaluations"`
	Nontrivial   int64             `json:"nontrivial"`
	States       int64             `json:"states"`
	Transitions  int64             `json:"transitions"`
	Traces       int64             `json:"traces"`
	Outcomes     []string          `json:"outcomes"`
	DistinctFile string            `json:"distinct_file,omitempty"`
	DistinctN    int64             `json:"distinct_n"`
	Samples      []json.RawMessage `json:"samples"`
	Rules        []string          `json:"rules"`
	Assumptions  []string          `json:"assumptions"`
	Notes        map[string]any    `json:"notes"`
	Caps         []string          `json:"caps"`
	Exhaustive   bool              `json:"exhaustive"`
	Violations   []Violation       `json:"violations"`
	Unreproduced []Violation       `json:"unreproduced"`
	Parts        map[string]int64  `json:"parts"`
	WallS        float64           `json:"wall_s"`
	Replay       bool              `json:"replay"`
	ReplayFailed bool              `json:"replay_failed"`
	Completed    bool              `json:"completed"`
}

// Ctx is the per-run context of a harness.
type Ctx struct {
	T      *testing.T
	ID     string
	tier   string
	seed   int64
	shard  int
	shards int
	out    string
	start  time.Time
	dl     time.Time

	replay *replayFile

	mu        sync.Mutex
	res       Result
	outcomes  map[string]struct{}
	distinct  map[uint64]struct{}
	vioBySig  map[string]bool
	nsamples  int64
	expired   atomic.Bool
	crumbPath string
	crumbF    *os.File
	crumbMax  int
	wsMu      sync.Mutex
	ws        []*W
}

type replayFile struct {
	Property string          `json:"property"`
	Sig      string          `json:"signature"`
	What     string          `json:"what"`
	Part     string          `json:"part"`
	Case     json.RawMessage `json:"case"`
}

const distinctCap = 4 << 20

// Run executes a harness body under the driver's environment.
func Run(t *testing.T, id string, body func(c *Ctx)) {
	c := &Ctx{T: t, ID: id, start: time.Now()}
	c.tier = os.Getenv("VERIF_TIER")
	if c.tier == "" {
		c.tier = "quick"
	}
	c.seed, _ = strconv.ParseInt(os.Getenv("VERIF_SEED"), 10, 64)
	c.shards = 1
	if s := os.Getenv("VERIF_SHARD"); s != "" {
		fmt.Sscanf(s, "%d/%d", &c.shard, &c.shards)
		if c.shards < 1 || c.shard < 0 || c.shard >= c.shards {
			t.Fatalf("bad VERIF_SHARD %q", s)
		}
	}
	c.out = os.Getenv("VERIF_OUT")
	budget := 0.0
	if s := os.Getenv("VERIF_DEADLINE_S"); s != "" {
		budget, _ = strconv.ParseFloat(s, 64)
	}
	if budget <= 0 {
		budget = 3600
	}
	c.dl = c.start.Add(time.Duration(budget * float64(time.Second)))
	c.outcomes = map[string]struct{}{}
	c.distinct = map[uint64]struct{}{}
	c.vioBySig = map[string]bool{}
	c.res = Result{ID: id, Tier: c.tier, Seed: c.seed, Shard: c.shard, Shards: c.shards,
		Notes: map[string]any{}, Parts: map[string]int64{}, Exhaustive: true}
	if c.out != "" {
		c.crumbPath = c.out + ".crumb"
	}
	if p := os.Getenv("VERIF_REPLAY"); p != "" {
		b, err := os.ReadFile(p)
		if err != nil {
			t.Fatalf("replay file: %v", err)
		}
		c.replay = &replayFile{}
		if err := json.Unmarshal(b, c.replay); err != nil {
			t.Fatalf("replay file: %v", err)
		}
		c.res.Replay = true
	}
	debug.SetGCPercent(200)
	wd := 180.0
	if s := os.Getenv("VERIF_WATCHDOG_S"); s != "" {
		wd, _ = strconv.ParseFloat(s, 64)
	}
	stop := make(chan struct{})
	if wd > 0 {
		go c.watchdog(time.Duration(wd*float64(time.Second)), stop)
	}
	func() {
		defer close(stop)
		body(c)
	}()
	c.finish()
}

func (c *Ctx) finish() {
	c.mu.Lock()
	defer c.mu.Unlock()
	c.res.WallS = time.Since(c.start).Seconds()
	for k := range c.outcomes {
		c.res.Outcomes = append(c.res.Outcomes, k)
	}
	sort.Strings(c.res.Outcomes)
	c.res.DistinctN = int64(len(c.distinct))
	if c.out != "" && len(c.distinct) > 0 {
		buf := make([]byte, 0, 8*len(c.distinct))
		for h := range c.distinct {
			buf = binary.LittleEndian.AppendUint64(buf, h)
		}
		p := c.out + ".distinct"
		if err := os.WriteFile(p, buf, 0o644); err == nil {
			c.res.DistinctFile = p
		}
	}
	c.res.Completed = true
	if c.replay != nil && len(c.res.Violations) == 0 {
		c.res.ReplayFailed = true
	}
	if c.out != "" {
		b, _ := json.MarshalIndent(&c.res, "", " ")
		if err := os.WriteFile(c.out, b, 0o644); err != nil {
			c.T.Fatalf("write result: %v", err)
		}
		if c.crumbF != nil {
			c.crumbF.Close()
		}
		os.Remove(c.crumbPath)
	} else {
		// Stand-alone use (`go test -run TestVerif_Cxx` with the overlay).
		c.T.Logf("evaluations=%d nontrivial=%d states=%d transitions=%d outcomes=%d distinct=%d exhaustive=%v wall=%.1fs",
			c.res.Evaluations, c.res.Nontrivial, c.res.States, c.res.Transitions, len(c.res.Outcomes), len(c.distinct), c.res.Exhaustive, c.res.WallS)
		for k, v := range c.res.Parts {
			c.T.Logf("part %s: %d", k, v)
		}
		for _, v := range c.res.Violations {
			c.T.Errorf("VIOLATION %s: %s case=%s", v.Sig, v.What, trunc(string(v.Case), 600))
		}
		for _, v := range c.res.Unreproduced {
			c.T.Logf("unreproduced %s: %s", v.Sig, v.What)
		}
	}
}

func stack() string { return string(debug.Stack()) }

func trunc(s string, n int) string {
	if len(s) > n {
		return s[:n] + "…"
	}
	return s
}

// Tier is "quick" or "thorough".
func (c *Ctx) Tier() string { return c.tier }

// Quick reports whether this is the quick tier.
func (c *Ctx) Quick() bool { return c.tier != "thorough" }

// Pick returns q in the quick tier and th in the thorough tier.
func Pick[T any](c *Ctx, q, th T) T {
	if c.Quick() {
		return q
	}
	return th
}

// Seed is VERIF_SEED; it must only rotate samples, never choose what is explored.
func (c *Ctx) Seed() int64 { return c.seed }

// Shard returns this process's shard index and the shard count.
func (c *Ctx) Shard() (int, int) { return c.shard, c.shards }

// Mine reports whether case index i belongs to this shard.
func (c *Ctx) Mine(i int64) bool { return c.shards <= 1 || int(i%int64(c.shards)) == c.shard }

// Workers is the number of worker goroutines to use inside this process.
func (c *Ctx) Workers() int {
	if s := os.Getenv("VERIF_WORKERS"); s != "" {
		if n, err := strconv.Atoi(s); err == nil && n > 0 {
			return n
		}
	}
	return runtime.GOMAXPROCS(0)
}

// Replaying reports whether the run replays one recorded case.
func (c *Ctx) Replaying() bool { return c.replay != nil }

// Expired reports whether the internal deadline has passed. The first time it
// does, the run is marked non-exhaustive with a cap note.
func (c *Ctx) Expired() bool {
	if c.expired.Load() {
		return true
	}
	if time.Now().After(c.dl) {
		if !c.expired.Swap(true) {
			c.Cap("internal deadline reached; exploration stopped early")
		}
		return true
	}
	return false
}

// Remaining is the time left until the internal deadline.
func (c *Ctx) Remaining() time.Duration { return time.Until(c.dl) }

// Cap records that some bound was hit: the run is not exhaustive.
func (c *Ctx) Cap(desc string) {
	c.mu.Lock()
	c.res.Exhaustive = false
	c.res.Caps = appendUniq(c.res.Caps, desc)
	c.mu.Unlock()
}

func appendUniq(l []string, s string) []string {
	for _, x := range l {
		if x == s {
			return l
		}
	}
	return append(l, s)
}

// Rule documents how cases are enumerated and what counts as non-trivial.
func (c *Ctx) Rule(s string) {
	c.mu.Lock()
	c.res.Rules = appendUniq(c.res.Rules, s)
	c.mu.Unlock()
}

// Assume records an assumption / exclusion of the check.
func (c *Ctx) Assume(s string) {
	c.mu.Lock()
	c.res.Assumptions = appendUniq(c.res.Assumptions, s)
	c.mu.Unlock()
}

// Note attaches an extra coverage key (bounds completed, etc).
func (c *Ctx) Note(k string, v any) {
	c.mu.Lock()
	c.res.Notes[k] = v
	c.mu.Unlock()
}

// Sample records an explored case for the evidence (a few are kept).
func (c *Ctx) Sample(v any) {
	n := atomic.AddInt64(&c.nsamples, 1)
	keep := n <= 3
	if !keep && n < 1<<40 {
		// a few later ones, rotated by the seed
		h := fnv.New64a()
		var b [16]byte
		binary.LittleEndian.PutUint64(b[:], uint64(n))
		binary.LittleEndian.PutUint64(b[8:], uint64(c.seed))
		h.Write(b[:])
		keep = h.Sum64()%4096 == 0
	}
	if !keep {
		return
	}
	b, err := json.Marshal(v)
	if err != nil {
		b, _ = json.Marshal(fmt.Sprintf("%+v", v))
	}
	if len(b) > 2000 {
		b, _ = json.Marshal(trunc(string(b), 2000))
	}
	c.mu.Lock()
	if len(c.res.Samples) < 8 {
		c.res.Samples = append(c.res.Samples, b)
	}
	c.mu.Unlock()
}

// AddStates / AddTransitions / AddTraces feed the model-checking counters.
func (c *Ctx) AddStates(n int64)      { atomic.AddInt64(&c.res.States, n) }
func (c *Ctx) AddTransitions(n int64) { atomic.AddInt64(&c.res.Transitions, n) }
func (c *Ctx) AddTraces(n int64)      { atomic.AddInt64(&c.res.Traces, n) }

// W is a per-worker accumulator handed to check functions. Its methods are
// not safe for concurrent use; each worker goroutine has its own.
type W struct {
	c        *Ctx
	part     string
	evals    int64
	nontriv  int64
	outcomes map[string]struct{}
	distinct map[uint64]struct{}
	fails    []fail
	scratch  bool

	wdStart atomic.Int64 // start (unix nanos) of the case being executed, 0 when idle
	wdCase  atomic.Value // the case being executed (for the watchdog's breadcrumb)
}

type fail struct{ sig, what string }

func (c *Ctx) newW(part string) *W {
	w := &W{c: c, part: part, outcomes: map[string]struct{}{}, distinct: map[uint64]struct{}{}}
	c.wsMu.Lock()
	c.ws = append(c.ws, w)
	if len(c.ws) > 4096 { // scratch accumulators come and go
		live := c.ws[:0]
		for _, x := range c.ws {
			if x.wdStart.Load() != 0 || !x.scratch {
				live = append(live, x)
			}
		}
		c.ws = live
	}
	c.wsMu.Unlock()
	return w
}

// watchdog kills the process when one case has been executing for longer than
// limit: a hang inside the code under test (an endless loop in Pop, a parser
// that never terminates) cannot be interrupted from Go, so the case is written
// to the breadcrumb file and the process panics; the driver attributes the
// crash to that case and re-runs it in fresh processes before reporting it.
// The limit is generous (minutes for cases that take micro- to milliseconds)
// so that machine load cannot trigger it.
func (c *Ctx) watchdog(limit time.Duration, stop <-chan struct{}) {
	for {
		select {
		case <-stop:
			return
		case <-time.After(2 * time.Second):
		}
		now := time.Now().UnixNano()
		c.wsMu.Lock()
		ws := append([]*W(nil), c.ws...)
		c.wsMu.Unlock()
		for _, w := range ws {
			st := w.wdStart.Load()
			if st != 0 && now-st > int64(limit) {
				cs := w.wdCase.Load()
				if box, ok := cs.(wdBox); ok {
					c.crumbHang(w.part, box.v)
				}
				panic(fmt.Sprintf("vx: watchdog: a case of part %q has been executing for more than %v (hang in the code under test?)", w.part, limit))
			}
		}
	}
}

type wdBox struct{ v any }

func (c *Ctx) crumbHang(part string, cs any) {
	if c.crumbPath == "" {
		return
	}
	b, _ := json.Marshal(cs)
	rf := replayFile{Property: c.ID, Sig: c.ID + "/" + part + "/hang", What: "a single case did not terminate within the watchdog limit", Part: part, Case: b}
	rb, _ := json.Marshal(&rf)
	os.WriteFile(c.crumbPath, rb, 0o644)
}

// Ctx returns the run context.
func (w *W) Ctx() *Ctx { return w.c }

// Fail reports that the current case violates the property. sig names the
// oracle clause and the abstract trigger (it is what known findings are
// matched on); what is a human-readable description.
func (w *W) Fail(sig, what string) { w.fails = append(w.fails, fail{sig, what}) }

// Failf is Fail with formatting of what.
func (w *W) Failf(sig, format string, a ...any) { w.Fail(sig, fmt.Sprintf(format, a...)) }

// Failed reports whether the current case has failed already.
func (w *W) Failed() bool { return len(w.fails) > 0 }

// Nontrivial counts the current case as one that reached the interesting
// path. Cases are distinct by construction of the enumeration.
func (w *W) Nontrivial() {
	if !w.scratch {
		w.nontriv++
	}
}

// Outcome records one of a (small) set of distinct observed outcomes.
func (w *W) Outcome(k string) {
	if !w.scratch {
		if len(w.outcomes) < 4096 {
			w.outcomes[k] = struct{}{}
		}
	}
}

// Distinct counts k in a (large, hashed) set of distinct non-trivial cases.
func (w *W) Distinct(k string) {
	if w.scratch {
		return
	}
	if len(w.distinct) < distinctCap/16 {
		h := fnv.New64a()
		h.Write([]byte(k))
		w.distinct[h.Sum64()] = struct{}{}
	}
}

func (w *W) merge() {
	c := w.c
	c.mu.Lock()
	c.res.Evaluations += w.evals
	c.res.Nontrivial += w.nontriv
	c.res.Parts[w.part] += w.evals
	for k := range w.outcomes {
		if len(c.outcomes) < 65536 {
			c.outcomes[k] = struct{}{}
		}
	}
	for k := range w.distinct {
		if len(c.distinct) < distinctCap {
			c.distinct[k] = struct{}{}
		}
	}
	c.mu.Unlock()
	w.evals, w.nontriv = 0, 0
	w.outcomes = map[string]struct{}{}
	w.distinct = map[uint64]struct{}{}
}

func (c *Ctx) record(part string, f fail, cs any, reruns int, confirmed bool) {
	b, err := json.Marshal(cs)
	if err != nil {
		b, _ = json.Marshal(fmt.Sprintf("%+v", cs))
	}
	v := Violation{Sig: f.sig, What: f.what, Part: part, Case: b, Reruns: reruns}
	c.mu.Lock()
	defer c.mu.Unlock()
	if !confirmed {
		if len(c.res.Unreproduced) < 20 {
			c.res.Unreproduced = append(c.res.Unreproduced, v)
		}
		c.res.Exhaustive = false
		c.res.Caps = appendUniq(c.res.Caps, "a failure did not reproduce on re-execution (see unreproduced)")
		return
	}
	if c.vioBySig[f.sig] {
		return
	}
	c.vioBySig[f.sig] = true
	c.res.Violations = append(c.res.Violations, v)
}

// seenSig reports whether a violation with this signature is already recorded
// (used to skip the 5x re-run for the thousands of cases one defect fails).
func (c *Ctx) seenSig(sig string) bool {
	c.mu.Lock()
	defer c.mu.Unlock()
	return c.vioBySig[sig]
}

// SigHash is a short stable name for a signature (replay file names).
func SigHash(sig string) string {
	s := sha256.Sum256([]byte(sig))
	return hex.EncodeToString(s[:6])
}

func (c *Ctx) crumb(part string, cs any) {
	if c.crumbPath == "" {
		return
	}
	b, _ := json.Marshal(cs)
	rf := replayFile{Property: c.ID, Sig: c.ID + "/" + part + "/crash", What: "process died while executing this case", Part: part, Case: b}
	rb, _ := json.Marshal(&rf)
	c.mu.Lock()
	defer c.mu.Unlock()
	if c.crumbF == nil {
		f, err := os.OpenFile(c.crumbPath, os.O_CREATE|os.O_WRONLY|os.O_TRUNC, 0o644)
		if err != nil {
			return
		}
		c.crumbF = f
	}
	// one positional write, padded with spaces (legal trailing JSON whitespace)
	// up to the longest crumb so far: no truncate/close per case.
	if len(rb) < c.crumbMax {
		rb = append(rb, bytes.Repeat([]byte{' '}, c.crumbMax-len(rb))...)
	} else {
		c.crumbMax = len(rb)
	}
	c.crumbF.WriteAt(rb, 0)
}

// Opts tunes Enumerate.
type Opts struct {
	// Serial runs cases on the calling goroutine (needed when check uses
	// testing/synctest bubbles tied to c.T, or global state).
	Serial bool
	// Crumb writes each case to a breadcrumb file before running it so that the
	// driver can attribute a process crash (panic on another goroutine,
	// fatal error) to a case.
	Crumb bool
	// NoRerun disables the 5x confirmation (for checks whose cases are
	// expensive and deterministic by construction).
	NoRerun bool
	// SampleEvery: record every case as a sample candidate (default true).
	NoSample bool
}

// runCase executes check on one case with panic recovery.
func runCase[T any](w *W, x T, check func(w *W, x T)) {
	w.wdCase.Store(wdBox{x})
	w.wdStart.Store(time.Now().UnixNano())
	defer w.wdStart.Store(0)
	defer func() {
		if r := recover(); r != nil {
			st := string(debug.Stack())
			w.Fail(w.c.ID+"/"+w.part+"/panic:"+panicSite(st), fmt.Sprintf("panic: %v\n%s", r, trunc(st, 3000)))
		}
	}()
	check(w, x)
}

// panicSite extracts the first repository (non-harness, non-runtime) frame of a
// stack so that different panics get different signatures.
func panicSite(st string) string {
	lines := strings.Split(st, "\n")
	for i := 0; i+1 < len(lines); i++ {
		l := lines[i]
		if strings.HasPrefix(l, "golang.org/x/net/") && !strings.Contains(l, "zzverif") &&
			!strings.Contains(lines[i+1], "zz_verif_") {
			if j := strings.LastIndex(l, "("); j > 0 {
				l = l[:j]
			}
			return strings.TrimPrefix(l, "golang.org/x/net/")
		}
	}
	return "unknown"
}

// Enumerate runs check on every case produced by gen (sharded by case index,
// fanned out over worker goroutines unless o.Serial). In replay mode it runs
// only the recorded case when its part matches.
func Enumerate[T any](c *Ctx, part string, o Opts, gen func(yield func(T) bool), check func(w *W, x T)) {
	if c.replay != nil {
		if c.replay.Part != part {
			return
		}
		var x T
		if err := json.Unmarshal(c.replay.Case, &x); err != nil {
			c.T.Fatalf("replay case does not decode: %v", err)
		}
		w := c.newW(part)
		w.evals++
		runCase(w, x, check)
		for _, f := range w.fails {
			c.record(part, f, x, 1, true)
		}
		w.merge()
		return
	}
	handle := func(w *W, x T) {
		w.evals++
		if o.Crumb {
			c.crumb(part, x)
		}
		w.fails = w.fails[:0]
		runCase(w, x, check)
		if len(w.fails) == 0 {
			if !o.NoSample {
				c.Sample(x)
			}
			return
		}
		fs := append([]fail(nil), w.fails...)
		for _, f := range fs[:1] { // first failure of a case is the one reported
			if c.seenSig(f.sig) {
				continue
			}
			confirmed, n := true, 1
			if !o.NoRerun {
				for i := 0; i < 4; i++ {
					sw := c.newW(part)
					sw.scratch = true
					runCase(sw, x, check)
					ok := false
					for _, g := range sw.fails {
						if g.sig == f.sig {
							ok = true
						}
					}
					if !ok {
						confirmed = false
						break
					}
					n++
				}
			}
			c.record(part, f, x, n, confirmed)
		}
		w.fails = w.fails[:0]
	}
	if o.Serial || c.Workers() == 1 {
		w := c.newW(part)
		var i, own int64
		gen(func(x T) bool {
			mine := c.Mine(i)
			i++
			if !mine {
				return true
			}
			own++
			if own&7 == 0 && c.Expired() {
				return false
			}
			handle(w, x)
			return true
		})
		w.merge()
		return
	}
	nw := c.Workers()
	ch := make(chan []T, nw*2)
	var wg sync.WaitGroup
	for k := 0; k < nw; k++ {
		wg.Add(1)
		go func() {
			defer wg.Done()
			w := c.newW(part)
			for batch := range ch {
				for _, x := range batch {
					handle(w, x)
				}
			}
			w.merge()
		}()
	}
	const batchN = 64
	batch := make([]T, 0, batchN)
	var i int64
	gen(func(x T) bool {
		mine := c.Mine(i)
		i++
		if !mine {
			return true
		}
		batch = append(batch, x)
		if len(batch) == batchN {
			ch <- batch
			batch = make([]T, 0, batchN)
			if c.Expired() {
				return false
			}
		}
		return true
	})
	if len(batch) > 0 {
		ch <- batch
	}
	close(ch)
	wg.Wait()
}

// Strings enumerates every sequence of at most maxLen (and at least minLen)
// elements of alphabet, shortest first, in lexicographic order of indices.
func Strings[E any](alphabet []E, minLen, maxLen int, yield func([]E) bool) bool {
	for n := minLen; n <= maxLen; n++ {
		idx := make([]int, n)
		buf := make([]E, n)
		for {
			for i, j := range idx {
				buf[i] = alphabet[j]
			}
			if !yield(append([]E(nil), buf...)) {
				return false
			}
			k := n - 1
			for k >= 0 {
				idx[k]++
				if idx[k] < len(alphabet) {
					break
				}
				idx[k] = 0
				k--
			}
			if k < 0 {
				break
			}
		}
	}
	return true
}

// Concat joins fragments.
func Concat(fr []string) string { return strings.Join(fr, "") }

// Hash64 is a helper for canonical keys.
func Hash64(s string) uint64 {
	h := fnv.New64a()
	h.Write([]byte(s))
	return h.Sum64()
}

// ---- low-level reporting for harness-specific explorers (vsched) ---------------------

// Report records a confirmed violation found by an explorer that manages its
// own cases (the caller is responsible for the confirmation re-runs).
func (c *Ctx) Report(part, sig, what string, cs any, reruns int) {
	c.record(part, fail{sig, what}, cs, reruns, true)
}

// ReportUnreproduced records a failure that did not reproduce.
func (c *Ctx) ReportUnreproduced(part, sig, what string, cs any) {
	c.record(part, fail{sig, what}, cs, 1, false)
}

// ReplayCase decodes the recorded case into v when the run replays this part.
func (c *Ctx) ReplayCase(part string, v any) bool {
	if c.replay == nil || c.replay.Part != part {
		return false
	}
	if err := json.Unmarshal(c.replay.Case, v); err != nil {
		c.T.Fatalf("replay case does not decode: %v", err)
	}
	return true
}

// AddEvals adds to the evaluation counters of a part.
func (c *Ctx) AddEvals(part string, n, nontrivial int64) {
	c.mu.Lock()
	c.res.Evaluations += n
	c.res.Nontrivial += nontrivial
	c.res.Parts[part] += n
	c.mu.Unlock()
}

// Outcome records one of a small set of distinct observed outcomes.
func (c *Ctx) Outcome(k string) {
	c.mu.Lock()
	if len(c.outcomes) < 65536 {
		c.outcomes[k] = struct{}{}
	}
	c.mu.Unlock()
}
