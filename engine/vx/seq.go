package vx

import (
	"crypto/sha256"
	"encoding/json"
	"fmt"
	"sync"
	"sync/atomic"
)

// SeqSpec describes an operation-sequence search over a real object that runs
// in lock-step with a reference model (both live inside S).
//
// Real objects are not cloned: the successor of a state is obtained by
// replaying the (shortest) path that reached it on a fresh instance and
// applying one more operation.
type SeqSpec[S any, O any] struct {
	Part string
	// New builds a fresh implementation+model pair.
	New func() S
	// Ops is the operation alphabet, simplest first.
	Ops []O
	// Enabled (optional) says whether op is within the checked contract in
	// state s; disabled ops are not transitions.
	Enabled func(s S, op O) bool
	// Apply performs op on implementation and model and compares everything
	// the model defines, reporting divergences through w.Fail. Returning false
	// prunes the branch (op turned out not applicable, or the run diverged).
	Apply func(w *W, s S, op O) bool
	// Canon (optional) returns a canonical key of the *implementation and
	// model* state; equal keys must have equal futures. Empty string or nil
	// Canon means no deduplication (stateless depth-bounded enumeration).
	Canon func(s S) string
	// Final (optional) is a destructive end-of-history check, run on a fresh
	// replay of every explored state.
	Final func(w *W, s S)
	// Close (optional) releases an instance.
	Close func(s S)
	// Depth is the number of operations explored beyond each seed.
	Depth int
	// Seeds are operation prefixes that build non-initial start states. A nil
	// Seeds means one empty seed.
	Seeds [][]O
	// MaxStates caps the number of stored states (0 = 50M); reaching it makes
	// the run non-exhaustive.
	MaxStates int
	// Serial forces single-goroutine exploration.
	Serial bool
}

type seqNode[O any] struct {
	path []O
}

type key128 [16]byte

func canonKey(s string) key128 {
	h := sha256.Sum256([]byte(s))
	var k key128
	copy(k[:], h[:16])
	return k
}

// SeqCase is the replayable form of one explored history.
type SeqCase[O any] struct {
	Path []O `json:"path"`
}

// Seq runs the search. It reports states (distinct canonical states, or
// explored histories when there is no Canon), transitions (operation
// applications on the real object that were compared with the model) and
// traces (complete histories replayed on a fresh real object).
func Seq[S any, O any](c *Ctx, sp SeqSpec[S, O]) {
	part := sp.Part
	if c.replay != nil {
		if c.replay.Part != part {
			return
		}
		var cs SeqCase[O]
		if err := json.Unmarshal(c.replay.Case, &cs); err != nil {
			c.T.Fatalf("replay case does not decode: %v", err)
		}
		w := c.newW(part)
		w.evals++
		seqRunPath(w, &sp, cs.Path, true)
		for _, f := range w.fails {
			c.record(part, f, cs, 1, true)
		}
		w.merge()
		return
	}
	seeds := sp.Seeds
	if seeds == nil {
		seeds = [][]O{nil}
	}
	maxStates := sp.MaxStates
	if maxStates == 0 {
		maxStates = 50_000_000
	}
	seen := map[key128]struct{}{}
	var states, transitions, traces int64
	var frontier []seqNode[O]

	// Level 0: the seeds themselves.
	{
		w := c.newW(part)
		for _, sd := range seeds {
			w.fails = w.fails[:0]
			w.evals++
			s, ok := seqRunPath(w, &sp, sd, false)
			traces++
			if len(w.fails) > 0 {
				seqReport(c, &sp, w, sd)
				continue
			}
			if !ok {
				c.T.Fatalf("%s: seed %v is not executable", part, sd)
			}
			k := ""
			if sp.Canon != nil {
				k = sp.Canon(s)
			}
			if sp.Close != nil {
				sp.Close(s)
			}
			if k != "" {
				kk := canonKey(k)
				if _, dup := seen[kk]; dup {
					continue
				}
				seen[kk] = struct{}{}
			}
			states++
			frontier = append(frontier, seqNode[O]{path: append([]O(nil), sd...)})
			if sp.Final != nil {
				w.fails = w.fails[:0]
				seqRunPath(w, &sp, sd, true)
				traces++
				if len(w.fails) > 0 {
					seqReport(c, &sp, w, sd)
				}
			}
		}
		w.merge()
	}

	type childRes struct {
		ok    bool
		key   key128
		keyed bool
	}
	completed := 0
	nw := c.Workers()
	if sp.Serial {
		nw = 1
	}
	for depth := 1; depth <= sp.Depth && len(frontier) > 0; depth++ {
		if c.Expired() {
			break
		}
		nOps := len(sp.Ops)
		results := make([]childRes, len(frontier)*nOps)
		var next atomic.Int64
		var stop atomic.Bool
		var wg sync.WaitGroup
		var trN, tcN atomic.Int64
		const chunk = 16
		for k := 0; k < nw; k++ {
			wg.Add(1)
			go func() {
				defer wg.Done()
				w := c.newW(part)
				defer w.merge()
				for {
					lo := int(next.Add(chunk)) - chunk
					if lo >= len(frontier) || stop.Load() {
						return
					}
					if c.Expired() {
						stop.Store(true)
						return
					}
					hi := min(lo+chunk, len(frontier))
					for ni := lo; ni < hi; ni++ {
						nd := frontier[ni]
						for oi, op := range sp.Ops {
							w.fails = w.fails[:0]
							s, ok := seqReplay(c, &sp, nd.path)
							if !ok {
								continue
							}
							if sp.Enabled != nil && !sp.Enabled(s, op) {
								if sp.Close != nil {
									sp.Close(s)
								}
								continue
							}
							w.evals++
							cont := seqApply(w, &sp, s, op)
							trN.Add(1)
							full := append(append([]O(nil), nd.path...), op)
							if len(w.fails) > 0 {
								seqReport(c, &sp, w, full)
								if sp.Close != nil {
									sp.Close(s)
								}
								continue
							}
							if !cont {
								if sp.Close != nil {
									sp.Close(s)
								}
								continue
							}
							w.Nontrivial()
							r := childRes{ok: true}
							if sp.Canon != nil {
								if ks := sp.Canon(s); ks != "" {
									r.key, r.keyed = canonKey(ks), true
								}
							}
							if sp.Close != nil {
								sp.Close(s)
							}
							results[ni*nOps+oi] = r
						}
					}
				}
			}()
		}
		wg.Wait()
		transitions += trN.Load()
		traces += tcN.Load()
		if stop.Load() {
			break
		}
		// Merge deterministically in (node, op) order.
		var nf []seqNode[O]
		capped := false
		for ni := range frontier {
			for oi := range sp.Ops {
				r := results[ni*nOps+oi]
				if !r.ok {
					continue
				}
				if r.keyed {
					if _, dup := seen[r.key]; dup {
						continue
					}
					if len(seen) >= maxStates {
						capped = true
						continue
					}
					seen[r.key] = struct{}{}
				}
				states++
				nf = append(nf, seqNode[O]{path: append(append([]O(nil), frontier[ni].path...), sp.Ops[oi])})
			}
		}
		if capped {
			c.Cap(fmt.Sprintf("%s: state cap %d reached at depth %d", part, maxStates, depth))
		}
		// Final checks and samples on the new states.
		if sp.Final != nil && len(nf) > 0 {
			var nx atomic.Int64
			var wg2 sync.WaitGroup
			for k := 0; k < nw; k++ {
				wg2.Add(1)
				go func() {
					defer wg2.Done()
					w := c.newW(part)
					defer w.merge()
					for {
						i := int(nx.Add(1)) - 1
						if i >= len(nf) || c.Expired() {
							return
						}
						w.fails = w.fails[:0]
						seqRunPath(w, &sp, nf[i].path, true)
						tcN.Add(1)
						if len(w.fails) > 0 {
							seqReport(c, &sp, w, nf[i].path)
						}
					}
				}()
			}
			wg2.Wait()
			traces += tcN.Load()
		}
		for i := 0; i < len(nf) && i < 4; i++ {
			c.Sample(SeqCase[O]{Path: nf[(i*7919+int(c.seed))%len(nf)].path})
		}
		frontier = nf
		if !c.expired.Load() {
			completed = depth
		}
	}
	if completed < sp.Depth && len(frontier) > 0 {
		c.Cap(fmt.Sprintf("%s: depth %d of %d completed", part, completed, sp.Depth))
	}
	closed := len(frontier) == 0
	c.AddStates(states)
	c.AddTransitions(transitions)
	c.AddTraces(traces + transitions)
	c.mu.Lock()
	c.res.Notes[part+".depth_completed"] = completed
	c.res.Notes[part+".states"] = states
	c.res.Notes[part+".transitions"] = transitions
	c.res.Notes[part+".closed_under_alphabet"] = closed
	c.mu.Unlock()
}

// seqReplay rebuilds the state reached by path; a failure while replaying a
// path that was clean when first explored is a determinism problem of the
// harness or implementation and is reported as reduced coverage.
func seqReplay[S any, O any](c *Ctx, sp *SeqSpec[S, O], path []O) (S, bool) {
	sw := c.newW(sp.Part)
	sw.scratch = true
	s := sp.New()
	for _, op := range path {
		if !seqApply(sw, sp, s, op) || len(sw.fails) > 0 {
			c.Cap(sp.Part + ": replay of a previously clean prefix diverged (nondeterminism)")
			if sp.Close != nil {
				sp.Close(s)
			}
			var z S
			return z, false
		}
	}
	return s, true
}

func seqApply[S any, O any](w *W, sp *SeqSpec[S, O], s S, op O) (cont bool) {
	defer func() {
		if r := recover(); r != nil {
			st := stack()
			w.Fail(w.c.ID+"/"+w.part+"/panic:"+panicSite(st), fmt.Sprintf("panic: %v\n%s", r, trunc(st, 3000)))
			cont = false
		}
	}()
	return sp.Apply(w, s, op)
}

// seqRunPath runs a whole path with a reporting W (used for seeds, Final and
// replay).
func seqRunPath[S any, O any](w *W, sp *SeqSpec[S, O], path []O, final bool) (S, bool) {
	s := sp.New()
	for _, op := range path {
		if sp.Enabled != nil && !sp.Enabled(s, op) {
			return s, false
		}
		if !seqApply(w, sp, s, op) || len(w.fails) > 0 {
			return s, false
		}
	}
	if final && sp.Final != nil {
		func() {
			defer func() {
				if r := recover(); r != nil {
					st := stack()
					w.Fail(w.c.ID+"/"+w.part+"/panic:"+panicSite(st), fmt.Sprintf("panic in final: %v\n%s", r, trunc(st, 3000)))
				}
			}()
			sp.Final(w, s)
		}()
		if sp.Close != nil {
			sp.Close(s)
		}
	}
	return s, true
}

func seqReport[S any, O any](c *Ctx, sp *SeqSpec[S, O], w *W, path []O) {
	f := w.fails[0]
	w.fails = w.fails[:0]
	if c.seenSig(f.sig) {
		return
	}
	cs := SeqCase[O]{Path: append([]O(nil), path...)}
	confirmed, n := true, 1
	for i := 0; i < 4; i++ {
		sw := c.newW(sp.Part)
		sw.scratch = true
		seqRunPath(sw, sp, path, true)
		ok := false
		for _, g := range sw.fails {
			if g.sig == f.sig {
				ok = true
			}
		}
		if !ok {
			confirmed = false
			break
		}
		n++
	}
	c.record(sp.Part, f, cs, n, confirmed)
}
