// Package vsched is a cooperative scheduler and a stateless,
// preemption-bounded explorer of all interleavings of a small thread harness.
//
// Code under test is the repository's own source, mechanically rewritten by
// cmd/vrewrite so that every channel operation, select, go statement and
// sync/context primitive goes through this package. Harness threads are real
// goroutines, but exactly one runs at a time: a thread runs from one
// synchronisation operation up to (not including) the next, then parks; the
// scheduler picks which parked thread performs its pending operation next.
// Blocking is modelled as "not enabled" (no spinning), so "no enabled thread
// while some thread is unfinished" is a deadlock / lost wake-up.
//
// There is one scheduler per process at a time (the package keeps a current
// scheduler); parallelism is by process sharding.
package vsched

import (
	"fmt"
	"reflect"
	"runtime/debug"
	"strings"
	"sync"
)

type abortT struct{}

// Sched is one controlled execution.
type Sched struct {
	threads  []*thread
	wake     chan struct{}
	cur      int
	prefix   []int
	points   []Point
	steps    int
	maxSteps int
	aborting bool
	trace    []string
	panicked string
	harnErr  string
	invs     []func() string
	invFail  string
	nextID   int
}

type thread struct {
	id     int
	name   string
	resume chan struct{}
	op     *op
	done   bool
	alt    int
}

type op struct {
	desc string
	alts func() []int // alternatives currently available; empty = blocked
	do   func(alt int)
}

// Point is one scheduling decision.
type Point struct {
	N          int   // number of options
	Chosen     int   // index taken
	Threads    []int // thread id of each option
	CurEnabled bool  // the previously running thread was among the options
	Cur        int
}

var current *Sched

func cur() *Sched {
	if current == nil {
		panic("vsched: operation outside a controlled execution")
	}
	return current
}

// park registers the calling thread's pending operation and blocks until the
// scheduler has performed it. It returns the alternative that was taken.
func (s *Sched) park(t *thread, o *op) int {
	if s.aborting {
		// a deferred call of a thread that is being unwound: keep unwinding
		panic(abortT{})
	}
	t.op = o
	s.wake <- struct{}{}
	<-t.resume
	if s.aborting {
		panic(abortT{})
	}
	return t.alt
}

func (s *Sched) me() *thread {
	if s.cur < 0 || s.cur >= len(s.threads) {
		panic("vsched: no running thread")
	}
	return s.threads[s.cur]
}

// Go starts a new controlled thread.
func Go(f func()) {
	if Free {
		freeGo(f)
		return
	}
	cur().spawn("", f)
}

// GoNamed starts a new controlled thread with a name for traces.
func GoNamed(name string, f func()) {
	if Free {
		freeGo(f)
		return
	}
	cur().spawn(name, f)
}

func (s *Sched) spawn(name string, f func()) {
	t := &thread{id: len(s.threads), name: name, resume: make(chan struct{})}
	if name == "" {
		t.name = fmt.Sprintf("T%d", t.id)
	}
	t.op = &op{desc: "start", alts: func() []int { return []int{0} }, do: func(int) {}}
	s.threads = append(s.threads, t)
	go func() {
		<-t.resume
		defer func() {
			if r := recover(); r != nil {
				if _, ok := r.(abortT); !ok && s.panicked == "" {
					s.panicked = fmt.Sprintf("%v\n%s", r, trimStack(string(debug.Stack())))
				}
			}
			t.done = true
			t.op = nil
			s.wake <- struct{}{}
		}()
		if s.aborting {
			return
		}
		f()
	}()
}

func trimStack(st string) string {
	if len(st) > 2500 {
		st = st[:2500]
	}
	return st
}

// Yield is a pure scheduling point.
func Yield() {
	if Free {
		freeYield()
		return
	}
	s := cur()
	s.park(s.me(), &op{desc: "yield", alts: func() []int { return []int{0} }, do: func(int) {}})
}

// PostReleasePoints adds a scheduling point right after releasing operations
// (mutex unlock, sync.Pool.Put) — needed where code may touch shared state
// after the release; set by PairPrograms.
var PostReleasePoints bool

// Touch is the scheduling point vrewrite -globals inserts before a statement
// that mentions a written package-level variable. Outside a controlled
// execution (package initialisation, reference computations) it does nothing.
func Touch(name string) {
	if Free {
		return
	}
	s := current
	if s == nil || s.cur < 0 || s.aborting {
		return
	}
	live := 0
	for _, t := range s.threads {
		if !t.done {
			live++
		}
	}
	if live <= 1 {
		// set-up code before the first spawn, or the last thread standing:
		// nothing to interleave with
		return
	}
	s.park(s.me(), &op{desc: "touch(" + name + ")", alts: func() []int { return []int{0} }, do: func(int) {}})
}

// Invariant registers a predicate evaluated after every step; a non-empty
// result is recorded as the execution's invariant failure.
func Invariant(f func() string) {
	if Free {
		return
	}
	s := cur()
	s.invs = append(s.invs, f)
}

// HarnessError flags misuse the model does not support (never a violation).
func (s *Sched) harnessError(msg string) {
	if s.harnErr == "" {
		s.harnErr = msg
	}
}

// ---- channels ---------------------------------------------------------------

// Chan models a Go channel of capacity cap (unbuffered channels support only
// close and receive, which is all the instrumented code needs).
type Chan[T any] struct {
	s      *Sched
	id     int
	buf    []T
	cap    int
	closed bool
	ch     chan T // free-running mode only
	once   sync.Once
}

// Make is make(chan T, n).
func Make[T any](n int) *Chan[T] {
	if Free {
		return &Chan[T]{ch: make(chan T, n), cap: n}
	}
	s := cur()
	s.nextID++
	return &Chan[T]{s: s, id: s.nextID, cap: n}
}

func (c *Chan[T]) String() string { return fmt.Sprintf("ch%d", c.id) }

// Len is the number of buffered elements (harness observation only).
func (c *Chan[T]) Len() int {
	if Free {
		return len(c.ch)
	}
	return len(c.buf)
}

func (c *Chan[T]) canSend() bool { return c.closed || len(c.buf) < c.cap }
func (c *Chan[T]) canRecv() bool { return c.closed || len(c.buf) > 0 }

func (c *Chan[T]) doSend(v T) (panicMsg string) {
	if c.closed {
		return "send on closed channel"
	}
	c.buf = append(c.buf, v)
	return ""
}

func (c *Chan[T]) doRecv() (v T, ok bool) {
	if len(c.buf) > 0 {
		v = c.buf[0]
		var zero T
		c.buf[0] = zero
		c.buf = c.buf[1:]
		return v, true
	}
	return v, false
}

// Send is c <- v.
func (c *Chan[T]) Send(v T) {
	if Free {
		if c == nil {
			select {}
		}
		c.ch <- v
		return
	}
	if c == nil {
		s := cur()
		s.park(s.me(), &op{desc: "send(nil)", alts: func() []int { return nil }, do: func(int) {}})
		return
	}
	if c.cap == 0 {
		c.s.harnessError("send on an unbuffered channel is not modelled")
	}
	var pm string
	c.s.park(c.s.me(), &op{desc: "send(" + c.String() + ")",
		alts: func() []int {
			if c.canSend() {
				return []int{0}
			}
			return nil
		},
		do: func(int) { pm = c.doSend(v) }})
	if pm != "" {
		panic(pm)
	}
}

// Recv is <-c.
func (c *Chan[T]) Recv() T { v, _ := c.Recv2(); return v }

// Recv2 is v, ok := <-c.
func (c *Chan[T]) Recv2() (v T, ok bool) {
	if Free {
		if c == nil {
			select {}
		}
		v, ok = <-c.ch
		return
	}
	if c == nil {
		s := cur()
		s.park(s.me(), &op{desc: "recv(nil)", alts: func() []int { return nil }, do: func(int) {}})
		return
	}
	c.s.park(c.s.me(), &op{desc: "recv(" + c.String() + ")",
		alts: func() []int {
			if c.canRecv() {
				return []int{0}
			}
			return nil
		},
		do: func(int) { v, ok = c.doRecv() }})
	return
}

// Close is close(c).
func (c *Chan[T]) Close() {
	if c == nil {
		panic("close of nil channel")
	}
	if Free {
		close(c.ch)
		return
	}
	var pm string
	c.s.park(c.s.me(), &op{desc: "close(" + c.String() + ")",
		alts: func() []int { return []int{0} },
		do: func(int) {
			if c.closed {
				pm = "close of closed channel"
			}
			c.closed = true
		}})
	if pm != "" {
		panic(pm)
	}
}

// CloseNow closes c as part of the caller's current atomic step (no
// scheduling point); used by shims that model a larger atomic operation.
func (c *Chan[T]) CloseNow() {
	if Free {
		c.once.Do(func() { close(c.ch) })
		return
	}
	c.closed = true
}

// Case is one communication clause of a select.
type Case struct {
	ready func() bool
	do    func() string
	desc  string
	rc    reflect.SelectCase // free-running mode only
}

// RecvCase is `case <-c:`.
func (c *Chan[T]) RecvCase() Case {
	if Free {
		if c == nil {
			return Case{rc: reflect.SelectCase{Dir: reflect.SelectRecv}}
		}
		return Case{rc: reflect.SelectCase{Dir: reflect.SelectRecv, Chan: reflect.ValueOf(c.ch)}}
	}
	if c == nil {
		return Case{ready: func() bool { return false }, do: func() string { return "" }, desc: "recv(nil)"}
	}
	return Case{ready: c.canRecv, do: func() string { c.doRecv(); return "" }, desc: "recv(" + c.String() + ")"}
}

// SendCase is `case c <- v:`.
func (c *Chan[T]) SendCase(v T) Case {
	if Free {
		if c == nil {
			return Case{rc: reflect.SelectCase{Dir: reflect.SelectSend}}
		}
		return Case{rc: reflect.SelectCase{Dir: reflect.SelectSend, Chan: reflect.ValueOf(c.ch), Send: reflect.ValueOf(v)}}
	}
	if c == nil {
		return Case{ready: func() bool { return false }, do: func() string { return "" }, desc: "send(nil)"}
	}
	if c.cap == 0 {
		c.s.harnessError("send on an unbuffered channel is not modelled")
	}
	return Case{ready: c.canSend, do: func() string { return c.doSend(v) }, desc: "send(" + c.String() + ")"}
}

// Select performs a select over cases; it returns the index of the clause
// taken, or -1 for the default clause. Which of several ready clauses is
// taken is an explicit choice point of the exploration.
func Select(hasDefault bool, cases ...Case) int {
	if Free {
		return freeSelect(hasDefault, cases)
	}
	s := cur()
	var pm string
	var ds []string
	for _, c := range cases {
		ds = append(ds, c.desc)
	}
	if hasDefault {
		ds = append(ds, "default")
	}
	alt := s.park(s.me(), &op{desc: "select{" + strings.Join(ds, ",") + "}",
		alts: func() []int {
			var r []int
			for i, c := range cases {
				if c.ready() {
					r = append(r, i)
				}
			}
			if len(r) == 0 && hasDefault {
				return []int{-1}
			}
			return r
		},
		do: func(alt int) {
			if alt >= 0 {
				pm = cases[alt].do()
			}
		}})
	if pm != "" {
		panic(pm)
	}
	return alt
}

// ---- primitives used by the sync/context shims --------------------------------

// Lockable is a mutex-like primitive.
type Lockable struct {
	held bool
	name string
	mu   sync.Mutex // free-running mode only
}

// Acquire blocks until the lock is free.
func (l *Lockable) Acquire(desc string) {
	if Free {
		l.mu.Lock()
		return
	}
	s := cur()
	s.park(s.me(), &op{desc: desc,
		alts: func() []int {
			if !l.held {
				return []int{0}
			}
			return nil
		},
		do: func(int) { l.held = true }})
}

// Release frees the lock (a scheduling point precedes it).
func (l *Lockable) Release(desc string) {
	if Free {
		l.mu.Unlock()
		return
	}
	s := cur()
	var pm string
	s.park(s.me(), &op{desc: desc, alts: func() []int { return []int{0} },
		do: func(int) {
			if !l.held {
				pm = "sync: unlock of unlocked mutex"
			}
			l.held = false
		}})
	if pm != "" {
		panic(pm)
	}
}

// WaitUntil blocks until cond holds.
func WaitUntil(desc string, cond func() bool) {
	if Free {
		panic("vsched.WaitUntil is not available in free-running mode")
	}
	s := cur()
	s.park(s.me(), &op{desc: desc,
		alts: func() []int {
			if cond() {
				return []int{0}
			}
			return nil
		},
		do: func(int) {}})
}

// ---- one execution ----------------------------------------------------------------

// Outcome describes how one controlled execution ended.
type Outcome struct {
	Deadlock bool     // no enabled thread, some unfinished
	Blocked  []string // "T2@recv(ch3)" for each blocked thread at the end
	Horizon  bool     // step horizon exceeded
	Panic    string   // panic inside a controlled thread (code under test or harness)
	InvFail  string   // first failed invariant
	Steps    int
	Trace    []string
}

type execResult struct {
	out    Outcome
	points []Point
	err    string // harness error (unsupported construct, bad prefix)
}

// run executes body under the schedule prefix (then option 0 everywhere).
func run(prefix []int, maxSteps int, body func()) execResult {
	s := &Sched{wake: make(chan struct{}), cur: -1, prefix: prefix, maxSteps: maxSteps}
	current = s
	defer func() { current = nil }()
	s.spawn("main", body)
	var res execResult
	for {
		// every thread is parked or done here
		type option struct {
			t   *thread
			alt int
		}
		var opts []option
		add := func(t *thread) {
			if t.done || t.op == nil {
				return
			}
			for _, a := range t.op.alts() {
				opts = append(opts, option{t, a})
			}
		}
		curEnabled := false
		if s.cur >= 0 {
			add(s.threads[s.cur])
			curEnabled = len(opts) > 0
		}
		for _, t := range s.threads {
			if t.id != s.cur {
				add(t)
			}
		}
		if len(opts) == 0 {
			for _, t := range s.threads {
				if !t.done {
					res.out.Deadlock = true
					res.out.Blocked = append(res.out.Blocked, fmt.Sprintf("%s@%s", t.name, t.op.desc))
				}
			}
			break
		}
		if s.steps >= s.maxSteps {
			res.out.Horizon = true
			break
		}
		choice := 0
		if s.steps < len(prefix) {
			choice = prefix[s.steps]
			if choice < 0 || choice >= len(opts) {
				res.err = fmt.Sprintf("schedule prefix diverged at step %d: choice %d of %d options", s.steps, choice, len(opts))
				break
			}
		}
		p := Point{N: len(opts), Chosen: choice, CurEnabled: curEnabled, Cur: s.cur}
		for _, o := range opts {
			p.Threads = append(p.Threads, o.t.id)
		}
		s.points = append(s.points, p)
		o := opts[choice]
		s.trace = append(s.trace, fmt.Sprintf("%s:%s/%d", o.t.name, o.t.op.desc, o.alt))
		o.t.op.do(o.alt)
		o.t.alt = o.alt
		o.t.op = nil
		s.cur = o.t.id
		s.steps++
		o.t.resume <- struct{}{}
		<-s.wake
		if s.invFail == "" {
			for _, inv := range s.invs {
				if m := inv(); m != "" {
					s.invFail = m
					break
				}
			}
		}
		if s.panicked != "" || s.harnErr != "" {
			break
		}
	}
	// abort whatever is still parked
	s.aborting = true
	for _, t := range s.threads {
		if !t.done {
			t.resume <- struct{}{}
			<-s.wake
		}
	}
	res.out.Steps = s.steps
	res.out.Trace = s.trace
	res.out.Panic = s.panicked
	res.out.InvFail = s.invFail
	res.points = s.points
	if res.err == "" {
		res.err = s.harnErr
	}
	return res
}
