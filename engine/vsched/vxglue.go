package vsched

import (
	"fmt"
	"sort"
	"strings"
	"time"

	"golang.org/x/net/internal/zzverif/vx"
)

// SchedCase is the replayable form of a violating schedule.
type SchedCase struct {
	Program  string   `json:"program"`
	Schedule []int    `json:"schedule"`
	Trace    []string `json:"trace,omitempty"`
}

// RunAll explores every program with preemption bounds 0..bound (bound < 0:
// unbounded) and feeds the results into the vx context: evaluations =
// executions, states = scheduling points visited, transitions = steps,
// traces = complete executions of the instrumented implementation.
func RunAll(c *vx.Ctx, part string, progs []Program, bound int) {
	RunBounds(c, part, progs, []int{bound})
}

// RunBounds explores every program with each preemption bound of bounds in
// turn (iterative context bounding: e.g. 2, 3, then -1 = unbounded) and
// records per program the largest bound that was completed, so that a
// deadline during the deepest pass still leaves a precise coverage statement.
func RunBounds(c *vx.Ctx, part string, progs []Program, bounds []int) {
	if Free {
		// supplementary free-running pass (run under -race by vcheck)
		st := RunFree(progs, c.Expired)
		c.AddEvals(part+"/free-running", st.Executions, st.Joined)
		c.Note("free_run", st)
		return
	}
	if c.Replaying() {
		runAll(c, part, progs, bounds[0], nil)
		return
	}
	done := map[string]any{}
	for _, b := range bounds {
		if c.Expired() {
			break
		}
		runAll(c, part, progs, b, done)
	}
	c.Note("preemption_bound_completed_per_program", done)
}

func runAll(c *vx.Ctx, part string, progs []Program, bound int, done map[string]any) {
	if c.Replaying() {
		var sc SchedCase
		if !c.ReplayCase(part, &sc) {
			return
		}
		for _, p := range progs {
			if p.Name != sc.Program {
				continue
			}
			v, o, err := Replay(p, sc.Schedule)
			if err != "" {
				c.T.Fatalf("replay: %s", err)
			}
			c.AddEvals(part, 1, 1)
			if v.Sig != "" {
				c.Report(part, v.Sig, v.What, SchedCase{p.Name, sc.Schedule, o.Trace}, 1)
			}
		}
		return
	}
	shard, shards := c.Shard()
	for pi, p := range progs {
		if c.Expired() {
			return
		}
		expired := c.Expired
		if bound < 0 {
			// the unbounded pass gets an equal share of the remaining budget
			// per program, so that one large program cannot starve the rest
			share := c.Remaining() / time.Duration(len(progs)-pi)
			limit := time.Now().Add(share)
			expired = func() bool { return time.Now().After(limit) || c.Expired() }
		}
		st := Explore(p, Config{Bound: bound, Shard: shard, Shards: shards, Expired: expired})
		if st.HarnessErr != "" {
			c.T.Fatalf("harness error in %s: %s", p.Name, st.HarnessErr)
		}
		c.AddEvals(part+"/"+p.Name, st.Executions, st.Executions)
		c.AddStates(st.Points)
		c.AddTransitions(st.Steps)
		c.AddTraces(st.Executions)
		var obs []string
		for k, n := range st.Observed {
			c.Outcome(p.Name + ":" + k)
			obs = append(obs, fmt.Sprintf("%s×%d", k, n))
		}
		sort.Strings(obs)
		c.Note(fmt.Sprintf("%s@bound=%d", p.Name, bound), map[string]any{"executions": st.Executions, "max_points": st.MaxDepth, "deadlocks": st.Deadlocks,
			"distinct_terminal_outcomes": len(st.Observed), "complete": st.Complete, "preemption_bound": bound})
		if !st.Complete {
			c.Cap(fmt.Sprintf("%s: exploration with preemption bound %d not completed (deadline or horizon)", p.Name, bound))
		} else if done != nil {
			if bound < 0 {
				done[p.Name] = "unbounded"
			} else {
				done[p.Name] = bound
			}
		}
		if shard == 0 {
			c.Sample(map[string]any{"program": p.Name, "outcomes": obs})
		}
		for _, f := range st.Failures {
			if strings.HasPrefix(f.Sig, "HARNESS:") {
				c.T.Fatalf("harness self-check failed in %s: %s: %s (schedule %v)", p.Name, f.Sig, f.What, f.Schedule)
			}
			// confirm: the same schedule must fail the same way 5 times
			n := 0
			for i := 0; i < 5; i++ {
				v, _, err := Replay(p, f.Schedule)
				if err == "" && v.Sig == f.Sig {
					n++
				}
			}
			cs := SchedCase{p.Name, f.Schedule, f.Trace}
			if n == 5 {
				c.Report(part, f.Sig, f.What, cs, n)
			} else {
				c.ReportUnreproduced(part, f.Sig, f.What, cs)
			}
		}
	}
}
