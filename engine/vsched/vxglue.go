package vsched

import (
	"fmt"
	"sort"

	"golang.org/x/net/internal/zzverif/vx"
)

// SchedCase is the replayable form of a violating schedule.
type SchedCase struct {
	Program  string   `json:"program"`
	Schedule []int    `json:"schedule"`
	Trace    []string `json:"trace,omitempty"`
}

// RunAll explores every program with preemption bounds 0..bound (bound < 0:
// unbounded) and feeds the results into the vx context: evaluations =
// executions, states = scheduling points visited, transitions = steps,
// traces = complete executions of the instrumented implementation.
func RunAll(c *vx.Ctx, part string, progs []Program, bound int) {
	if c.Replaying() {
		var sc SchedCase
		if !c.ReplayCase(part, &sc) {
			return
		}
		for _, p := range progs {
			if p.Name != sc.Program {
				continue
			}
			v, o, err := Replay(p, sc.Schedule)
			if err != "" {
				c.T.Fatalf("replay: %s", err)
			}
			c.AddEvals(part, 1, 1)
			if v.Sig != "" {
				c.Report(part, v.Sig, v.What, SchedCase{p.Name, sc.Schedule, o.Trace}, 1)
			}
		}
		return
	}
	shard, shards := c.Shard()
	for _, p := range progs {
		if c.Expired() {
			return
		}
		st := Explore(p, Config{Bound: bound, Shard: shard, Shards: shards, Expired: c.Expired})
		if st.HarnessErr != "" {
			c.T.Fatalf("harness error in %s: %s", p.Name, st.HarnessErr)
		}
		c.AddEvals(part+"/"+p.Name, st.Executions, st.Executions)
		c.AddStates(st.Points)
		c.AddTransitions(st.Steps)
		c.AddTraces(st.Executions)
		var obs []string
		for k, n := range st.Observed {
			c.Outcome(p.Name + ":" + k)
			obs = append(obs, fmt.Sprintf("%s×%d", k, n))
		}
		sort.Strings(obs)
		c.Note(p.Name, map[string]any{"executions": st.Executions, "max_points": st.MaxDepth, "deadlocks": st.Deadlocks,
			"distinct_terminal_outcomes": len(st.Observed), "complete": st.Complete, "preemption_bound": bound})
		if !st.Complete {
			c.Cap(fmt.Sprintf("%s: exploration with preemption bound %d not completed (deadline or horizon)", p.Name, bound))
		}
		if shard == 0 {
			c.Sample(map[string]any{"program": p.Name, "outcomes": obs})
		}
		for _, f := range st.Failures {
			// confirm: the same schedule must fail the same way 5 times
			n := 0
			for i := 0; i < 5; i++ {
				v, _, err := Replay(p, f.Schedule)
				if err == "" && v.Sig == f.Sig {
					n++
				}
			}
			cs := SchedCase{p.Name, f.Schedule, f.Trace}
			if n == 5 {
				c.Report(part, f.Sig, f.What, cs, n)
			} else {
				c.ReportUnreproduced(part, f.Sig, f.What, cs)
			}
		}
	}
}
