package vsched

// Free-running mode (supplementary data-race pass).
//
// The cooperative scheduler's hand-offs are happens-before edges, so a race
// detector sees nothing under it. With VERIF_FREE=1 the same primitives map
// onto the real ones instead (real goroutines, real channels, real mutexes,
// reflect.Select), the same harness bodies run free under `go test -race`,
// and the race detector's reports about the instrumented source are
// collected by vcheck. This pass samples schedules; it decides nothing about
// the property's other clauses (judges are not evaluated: the harness
// monitors are themselves unsynchronised by design).

import (
	"fmt"
	"os"
	"reflect"
	"runtime"
	"sync"
	"sync/atomic"
	"time"
)

// Free reports whether the process runs in free-running mode.
var Free = os.Getenv("VERIF_FREE") == "1"

var (
	freeMu      sync.Mutex
	freeWG      *sync.WaitGroup
	freePanics  atomic.Int64
	freeRunning atomic.Int64
)

func freeGo(f func()) {
	freeMu.Lock()
	wg := freeWG
	freeMu.Unlock()
	if wg != nil {
		wg.Add(1)
	}
	freeRunning.Add(1)
	go func() {
		defer func() {
			if r := recover(); r != nil {
				freePanics.Add(1)
			}
			freeRunning.Add(-1)
			if wg != nil {
				wg.Done()
			}
		}()
		f()
	}()
}

func freeSelect(hasDefault bool, cases []Case) int {
	sc := make([]reflect.SelectCase, 0, len(cases)+1)
	for _, c := range cases {
		sc = append(sc, c.rc)
	}
	if hasDefault {
		sc = append(sc, reflect.SelectCase{Dir: reflect.SelectDefault})
	}
	i, _, _ := reflect.Select(sc)
	if hasDefault && i == len(cases) {
		return -1
	}
	return i
}

// FreeStats is what a free-running pass covered.
type FreeStats struct {
	Executions int64 `json:"executions"`
	Joined     int64 `json:"joined"`  // every thread finished
	Blocked    int64 `json:"blocked"` // some thread still blocked after the grace period (abandoned)
	Panics     int64 `json:"panics"`
}

// RunFree runs every program's body repeatedly with real goroutines until
// expired reports true (at least once per program). Threads still blocked
// after a grace period (1 s) are abandoned; a program that ended blocked is not
// repeated once many goroutines have been abandoned.
func RunFree(progs []Program, expired func() bool) FreeStats {
	if !Free {
		panic("vsched.RunFree outside free-running mode")
	}
	var st FreeStats
	blockedBefore := map[string]bool{}
	for round := 0; ; round++ {
		ran := false
		for _, p := range progs {
			if round > 0 && expired() {
				break
			}
			if blockedBefore[p.Name] && (freeRunning.Load() > 1500 || round > 3) {
				continue
			}
			ran = true
			wg := &sync.WaitGroup{}
			freeMu.Lock()
			freeWG = wg
			freeMu.Unlock()
			wg.Add(1)
			go func() {
				defer func() {
					if r := recover(); r != nil {
						freePanics.Add(1)
					}
					wg.Done()
				}()
				p.Body()
			}()
			done := make(chan struct{})
			go func() { wg.Wait(); close(done) }()
			st.Executions++
			select {
			case <-done:
				st.Joined++
			case <-time.After(time.Second):
				st.Blocked++
				blockedBefore[p.Name] = true
			}
			freeMu.Lock()
			freeWG = nil
			freeMu.Unlock()
		}
		if !ran || expired() {
			break
		}
	}
	st.Panics = freePanics.Load()
	return st
}

func freeYield() { runtime.Gosched() }

func (st FreeStats) String() string {
	return fmt.Sprintf("executions=%d joined=%d blocked=%d panics=%d", st.Executions, st.Joined, st.Blocked, st.Panics)
}
