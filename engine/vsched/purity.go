package vsched

import (
	"fmt"
	"strings"
)

// Op is one call of a function whose result must not depend on what other
// threads are doing (a pure function, or a method of an object no other
// thread shares). Want is the result of the same call made alone, computed
// by the harness from the uninstrumented package.
type Op struct {
	Kind string // abstract class, used in signatures
	Name string // concrete call, used in messages
	Run  func() string
	Want string
}

// PairPrograms builds one program per unordered pair of ops (an op is also
// paired with itself): reset() restores the package's initial state (so
// lazily built state is rebuilt in every execution), then two threads run
// one op each; the oracle is that each observes exactly its sequential
// result, whatever the interleaving at the instrumented scheduling points.
// With seq > 0 each thread runs its op seq+1 times (reuse of pooled or
// cached state within a thread).
func PairPrograms(sigPrefix string, reset func(), ops []Op, seq int) []Program {
	PostReleasePoints = true
	var ps []Program
	// self-check: alone, on the instrumented source and from the reset state,
	// every op must return what the uninstrumented package returns; anything
	// else is an artefact of the instrumentation (or a non-deterministic op)
	// and is reported as a harness error, never as a violation
	for i := range ops {
		a := ops[i]
		ps = append(ps, Program{
			Name:     "solo/" + a.Name,
			MaxSteps: 20000,
			Body: func() func(Outcome) Verdict {
				reset()
				var got []string
				GoNamed("T1:"+a.Name, func() {
					for n := 0; n <= seq; n++ {
						got = append(got, a.Run())
					}
				})
				return func(o Outcome) Verdict {
					if o.Panic != "" || o.Deadlock {
						return Verdict{Sig: "HARNESS:solo-call-failed", What: fmt.Sprintf("%s alone on the instrumented source: panic=%q blocked=%v", a.Name, o.Panic, o.Blocked), Obs: "harness"}
					}
					for n, g := range got {
						if g != a.Want {
							return Verdict{Sig: "HARNESS:solo-result-differs", What: fmt.Sprintf("call %d of %s alone on the instrumented source returned %s, the uninstrumented package returns %s", n+1, a.Name, clip(g), clip(a.Want)), Obs: "harness"}
						}
					}
					return Verdict{Obs: "solo:" + a.Kind}
				}
			},
		})
	}
	for i := range ops {
		for j := i; j < len(ops); j++ {
			a, b := ops[i], ops[j]
			ps = append(ps, Program{
				Name:     fmt.Sprintf("pair/%s|%s", a.Name, b.Name),
				MaxSteps: 20000,
				Body: func() func(Outcome) Verdict {
					reset()
					pair := []Op{a, b}
					got := make([][]string, 2)
					for k := range pair {
						k := k
						GoNamed(fmt.Sprintf("T%d:%s", k+1, pair[k].Name), func() {
							for n := 0; n <= seq; n++ {
								got[k] = append(got[k], pair[k].Run())
							}
						})
					}
					return func(o Outcome) Verdict {
						if o.Panic != "" {
							return Verdict{Sig: sigPrefix + "/concurrent-calls/panic", What: fmt.Sprintf("%s running concurrently with %s panicked: %s", a.Name, b.Name, o.Panic), Obs: "panic"}
						}
						if o.Deadlock {
							return Verdict{Sig: sigPrefix + "/concurrent-calls/deadlock", What: fmt.Sprintf("%s running concurrently with %s never finished: %v", a.Name, b.Name, o.Blocked), Obs: "deadlock"}
						}
						for k := range pair {
							for n, g := range got[k] {
								if g != pair[k].Want {
									return Verdict{Sig: sigPrefix + "/concurrent-calls/result-differs-from-sequential/" + pair[k].Kind,
										What: fmt.Sprintf("thread %d, call %d of %s returned %s while %s ran concurrently; alone it returns %s (%s)", k+1, n+1, pair[k].Name, clip(g), pair[1-k].Name, clip(pair[k].Want), diffAt(g, pair[k].Want)), Obs: "differs"}
								}
							}
						}
						return Verdict{Obs: "same:" + a.Kind + "|" + b.Kind}
					}
				},
			})
		}
	}
	return ps
}

func clip(s string) string {
	s = strings.ToValidUTF8(s, "?")
	if len(s) > 160 {
		return s[:160] + "…"
	}
	return s
}

// diffAt renders got and want around their first difference.
func diffAt(got, want string) string {
	i := 0
	for i < len(got) && i < len(want) && got[i] == want[i] {
		i++
	}
	lo := i - 40
	if lo < 0 {
		lo = 0
	}
	cut := func(s string) string {
		hi := i + 80
		if hi > len(s) {
			hi = len(s)
		}
		if lo > len(s) {
			return ""
		}
		return strings.ToValidUTF8(s[lo:hi], "?")
	}
	return fmt.Sprintf("first difference at byte %d: got …%s… want …%s…", i, cut(got), cut(want))
}
