package vsched

import (
	"fmt"
	"strings"
)

// Verdict is what a harness says about one finished execution.
type Verdict struct {
	Sig  string // "" = no violation
	What string
	Obs  string // observation class (distinct terminal outcomes are counted)
}

// Program is one small thread harness. Body is the main thread: it builds the
// shared objects, starts threads with Go and returns; Judge is called after
// the execution has ended (all threads finished, deadlock, or horizon).
type Program struct {
	Name string
	// Body returns the judge for this execution (closing over the fresh state).
	Body func() (judge func(o Outcome) Verdict)
	// MaxSteps is the step horizon of one execution (default 400).
	MaxSteps int
}

// Config bounds the exploration.
type Config struct {
	// Bound is the preemption bound; negative means unbounded.
	Bound int
	// Shard/Shards split level-2 subtrees over processes.
	Shard, Shards int
	// Expired is polled between executions.
	Expired func() bool
}

// Failure is a violating schedule.
type Failure struct {
	Sig      string   `json:"signature"`
	What     string   `json:"what"`
	Program  string   `json:"program"`
	Schedule []int    `json:"schedule"`
	Trace    []string `json:"trace"`
}

// Stats reports what was covered.
type Stats struct {
	Executions  int64
	Steps       int64
	Points      int64
	Deadlocks   int64
	Observed    map[string]int64
	MaxDepth    int
	Failures    []Failure
	HarnessErr  string
	Complete    bool
	BoundDone   int
	Deterministic bool
}

// Replay runs one schedule and returns the verdict.
func Replay(p Program, schedule []int) (Verdict, Outcome, string) {
	var judge func(Outcome) Verdict
	r := run(schedule, p.maxSteps(), func() { judge = p.Body() })
	if r.err != "" {
		return Verdict{}, r.out, r.err
	}
	return finalVerdict(p, judge, r.out), r.out, ""
}

func (p Program) maxSteps() int {
	if p.MaxSteps > 0 {
		return p.MaxSteps
	}
	return 400
}

func finalVerdict(p Program, judge func(Outcome) Verdict, o Outcome) Verdict {
	if o.Horizon {
		return Verdict{Sig: "", What: "", Obs: "horizon"}
	}
	if judge == nil {
		return Verdict{Obs: "no-judge"}
	}
	return judge(o)
}

// Explore enumerates every schedule of p with at most cfg.Bound preemptions
// (iterative: depth-first over deviations from the default schedule).
func Explore(p Program, cfg Config) Stats {
	st := Stats{Observed: map[string]int64{}, Complete: true, Deterministic: true}
	failSeen := map[string]bool{}
	counted := func(level int) bool { return true }
	_ = counted
	var item int64

	var exec func(prefix []int, level int, count bool) (execResult, bool)
	exec = func(prefix []int, level int, count bool) (execResult, bool) {
		var judge func(Outcome) Verdict
		r := run(prefix, p.maxSteps(), func() { judge = p.Body() })
		if r.err != "" {
			if st.HarnessErr == "" {
				st.HarnessErr = fmt.Sprintf("%s: %s (schedule %v)", p.Name, r.err, prefix)
			}
			return r, false
		}
		if !count {
			return r, true
		}
		st.Executions++
		st.Steps += int64(r.out.Steps)
		st.Points += int64(len(r.points))
		if len(r.points) > st.MaxDepth {
			st.MaxDepth = len(r.points)
		}
		if r.out.Deadlock {
			st.Deadlocks++
		}
		v := finalVerdict(p, judge, r.out)
		if r.out.Horizon {
			st.Complete = false
		}
		st.Observed[v.Obs]++
		if v.Sig != "" && !failSeen[v.Sig] {
			failSeen[v.Sig] = true
			sched := make([]int, len(r.points))
			for i, pt := range r.points {
				sched[i] = pt.Chosen
			}
			st.Failures = append(st.Failures, Failure{Sig: v.Sig, What: v.What, Program: p.Name, Schedule: sched, Trace: r.out.Trace})
		}
		return r, true
	}

	// cost of taking option alt at point pt
	cost := func(pt Point, alt int) int {
		if pt.CurEnabled && pt.Threads[alt] != pt.Cur {
			return 1
		}
		return 0
	}

	var explore func(prefix []int, level int, mine bool)
	explore = func(prefix []int, level int, mine bool) {
		if st.HarnessErr != "" {
			return
		}
		if cfg.Expired != nil && cfg.Expired() {
			st.Complete = false
			return
		}
		// Levels 0 and 1 are executed by every shard (cheap) but counted by
		// shard 0 only; level-2 subtrees are owned by one shard each.
		count := mine
		if level < 2 {
			count = cfg.Shards <= 1 || cfg.Shard == 0
		}
		r, ok := exec(prefix, level, count)
		if !ok {
			return
		}
		used := 0
		for i := 0; i < len(r.points); i++ {
			pt := r.points[i]
			if i >= len(prefix) {
				for alt := 1; alt < pt.N; alt++ {
					c := used + cost(pt, alt)
					if cfg.Bound >= 0 && c > cfg.Bound {
						continue
					}
					np := make([]int, i+1)
					for j := 0; j < i; j++ {
						np[j] = r.points[j].Chosen
					}
					np[i] = alt
					childMine := mine
					if level+1 == 2 && cfg.Shards > 1 {
						childMine = int(item%int64(cfg.Shards)) == cfg.Shard
						item++
						if !childMine {
							continue
						}
					}
					explore(np, level+1, childMine)
				}
			}
			used += cost(pt, pt.Chosen)
		}
	}

	// determinism self-check: the default schedule twice
	{
		var j1, j2 func(Outcome) Verdict
		a := run(nil, p.maxSteps(), func() { j1 = p.Body() })
		b := run(nil, p.maxSteps(), func() { j2 = p.Body() })
		_, _ = j1, j2
		if strings.Join(a.out.Trace, ";") != strings.Join(b.out.Trace, ";") {
			st.Deterministic = false
			st.HarnessErr = p.Name + ": the default schedule is not reproducible"
			return st
		}
	}
	explore(nil, 0, true)
	st.BoundDone = cfg.Bound
	return st
}
