// Package vctx is the controlled stand-in for package context in code
// instrumented by vrewrite: Done returns a vsched channel.
package vctx

import (
	"errors"
	"sync"

	"golang.org/x/net/internal/zzverif/vsched"
)

// Context is the subset of context.Context the instrumented code uses.
type Context interface {
	Done() *vsched.Chan[struct{}]
	Err() error
}

var (
	Canceled         = errors.New("context canceled")
	DeadlineExceeded = errors.New("context deadline exceeded")
)

type background struct{}

func (background) Done() *vsched.Chan[struct{}] { return nil }
func (background) Err() error                   { return nil }

// Background never is done (Done returns a nil channel, as in package context).
func Background() Context { return background{} }

type cancelCtx struct {
	done *vsched.Chan[struct{}]
	err  error
	mu   sync.Mutex // free-running mode only
}

func (c *cancelCtx) Done() *vsched.Chan[struct{}] { return c.done }
func (c *cancelCtx) Err() error {
	if vsched.Free {
		c.mu.Lock()
		defer c.mu.Unlock()
	}
	return c.err
}

// CancelFunc cancels a context; calling it is a scheduling point.
type CancelFunc func()

// WithCancel returns a cancellable context (the parent is ignored: harnesses
// only derive from Background).
func WithCancel(parent Context) (Context, CancelFunc) {
	c := &cancelCtx{done: vsched.Make[struct{}](0)}
	return c, func() {
		vsched.Yield()
		if vsched.Free {
			c.mu.Lock()
			defer c.mu.Unlock()
		}
		if c.err == nil {
			c.err = Canceled
			c.done.CloseNow()
		}
	}
}
