#!/bin/sh
# Builds the verification driver offline and warms the Go build cache.
set -e
cd /verif
GO=/root/go/pkg/mod/golang.org/toolchain@v0.0.1-go1.25.0.linux-amd64/bin/go
[ -x "$GO" ] || GO=go1.26
export GOFLAGS=-mod=mod GOPROXY=off GOTOOLCHAIN=local GOWORK=off GOSUMDB=off
mkdir -p bin evidence replay .work
(cd engine && "$GO" build -o ../bin/vcheck ./cmd/vcheck && "$GO" build -o ../bin/vrewrite ./cmd/vrewrite)
./bin/vcheck manifest
./bin/vcheck warm
