// Stand-alone reproduction (plain Go test, no vx) of
//
//	C46/move/source-destroyed/destination-inside-source
//
// Overlay into the package directory /repo/webdav (package webdav), e.g.
//
//	cp C46_move_destination_inside_source_test.go <scratch>/webdav/zz_c46_move_in_test.go
//	cd <scratch> && /verif/tools/go.sh test -vet=off -run TestC46MoveIntoOwnMember ./webdav/
//
// "MOVE /a" with "Destination: /a/b" and "Overwrite: T", where /a/b is an
// existing member of the collection /a. A collection cannot be moved into
// itself, and the request is indeed answered 403 — but only after moveFiles
// has carried out the Overwrite deletion fs.RemoveAll("/a/b"): the member /a/b
// and everything below it (part of the source) is deleted and nothing is
// moved. The impossibility is detected too late (by memFS.Rename / os.Rename).
//
// Suggested minimal fix (webdav.go, handleCopyMove, before the lock
// confirmation of the MOVE branch, or at the top of moveFiles): refuse a
// destination inside the source before anything is deleted,
//
//	if strings.HasPrefix(slashClean(dst)+"/", slashClean(src)+"/") {
//		return http.StatusForbidden, errDestinationEqualsSource
//	}
//
// (this subsumes the equal-after-cleaning test for MOVE).
package webdav

import (
	"context"
	"net/http/httptest"
	"os"
	"testing"
)

func TestC46MoveIntoOwnMember(t *testing.T) {
	ctx := context.Background()
	fs := NewMemFS()
	for _, d := range []string{"/a", "/a/b"} {
		if err := fs.Mkdir(ctx, d, 0777); err != nil {
			t.Fatal(err)
		}
	}
	f, err := fs.OpenFile(ctx, "/a/b/f", os.O_RDWR|os.O_CREATE, 0666)
	if err != nil {
		t.Fatal(err)
	}
	f.Write([]byte("precious"))
	f.Close()

	h := &Handler{FileSystem: fs, LockSystem: NewMemLS()}
	req := httptest.NewRequest("MOVE", "http://example.com/a", nil)
	req.Header.Set("Destination", "/a/b")
	req.Header.Set("Overwrite", "T")
	rec := httptest.NewRecorder()
	h.ServeHTTP(rec, req)

	if _, err := fs.Stat(ctx, "/a/b/f"); err != nil {
		t.Errorf("MOVE /a with Destination /a/b (status %d) was refused, yet /a/b/f has been deleted: %v", rec.Code, err)
	}
}
