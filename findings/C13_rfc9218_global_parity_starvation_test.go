// Stand-alone reproduction of a C13 finding (plain Go test, no vx).
// Overlay / copy into the package directory http2/ of golang.org/x/net
// (package http2, white-box) and run:  go test -run TestFindingC13 ./http2/
//
// Finding C13/bounded-wait/sendable-stream-starved/pops-alternate-with-another-urgency
//
// RFC 9218 write scheduler. Streams: H (u=0) whose flow-control window is
// re-armed by one frame (4 bytes) per round, I (u=3, incremental) and N (u=3,
// non-incremental), both with plenty of queued data and open windows.
// Repeating  Pop Pop win(H,+4)  yields the Pop order  I N | H N | H N | H N ...
// After the first round I is never served again although it is sendable all
// the time; with the opposite parity (one more Pop in front) it is N that
// starves. Cause: prioritizeIncremental is ONE bit for the whole scheduler,
// toggled on every non-control Pop. When another urgency level absorbs every
// second Pop, the parity seen at urgency 3 never changes, so the same class
// (incremental or non-incremental) wins at that urgency forever. The
// documented intent is "50% of the bandwidth to the incremental ones in
// aggregate and 50% to the first non-incremental one" at the same urgency.
//
// Suggested minimal fix (writesched_priority_rfc9218.go): alternate per
// urgency level, and only when that level is actually served:
//
//	servedIncrementalLast [8]bool          // new field
//	...
//	// in Pop: drop `ws.prioritizeIncremental = !ws.prioritizeIncremental`
//	if !ws.servedIncrementalLast[u] { i = (i + 1) % 2 }   // instead of `if ws.prioritizeIncremental`
//	...
//	if wr, ok := q.consume(math.MaxInt32); ok {
//		ws.servedIncrementalLast[u] = i == 1
//
// (the package's scheduler tests and check C13 pass with this change).

//go:build !(go1.27 && !http2legacy)

package http2

import "testing"

func TestFindingC13_RFC9218_GlobalParityStarvesEqualUrgencyStream(t *testing.T) {
	for _, extraPop := range []bool{false, true} {
		ws := newPriorityWriteSchedulerRFC9218()
		sc := &serverConn{maxFrameSize: 4}
		sc.flow.add(1 << 24)
		mk := func(id uint32, win int32, p PriorityParam) *stream {
			st := &stream{id: id, sc: sc}
			st.flow.conn = &sc.flow
			st.flow.add(win)
			ws.OpenStream(id, OpenStreamOptions{priority: p})
			ws.Push(FrameWriteRequest{write: &writeData{streamID: id, p: make([]byte, 400), endStream: true}, stream: st})
			return st
		}
		h := mk(1, 0, PriorityParam{urgency: 0})
		mk(3, 1<<20, PriorityParam{urgency: 3, incremental: 1}) // I
		mk(5, 1<<20, PriorityParam{urgency: 3, incremental: 0}) // N
		if extraPop {
			ws.Pop() // flips the global parity
		}
		served := map[uint32]int{}
		var order []uint32
		for round := 0; round < 16; round++ {
			for k := 0; k < 2; k++ {
				wr, ok := ws.Pop()
				if !ok {
					t.Fatalf("Pop reported nothing in round %d", round)
				}
				if round > 0 { // count from the second round on
					served[wr.StreamID()]++
				}
				order = append(order, wr.StreamID())
			}
			h.flow.add(4) // H gets one frame of window
		}
		t.Logf("extraPop=%v: Pop order %v", extraPop, order)
		// Streams 3 and 5 have equal urgency and are sendable throughout; 15
		// Pops went to urgency 3 in rounds 2..16.
		if served[3] == 0 || served[5] == 0 {
			t.Errorf("extraPop=%v: in 15 rounds urgency 3 was served %d times: stream 3 (incremental) %d times, stream 5 (non-incremental) %d times - one of two sendable streams of equal urgency is starved",
				extraPop, served[3]+served[5], served[3], served[5])
		}
	}
}
