// Stand-alone reproduction for finding C19/complete/stall (FIN never
// retransmitted). Overlay this file into /repo/quic (package quic), e.g.
//
//	go test -overlay <(echo '{"Replace":{"/repo/quic/zz_c19_fin_test.go":"/verif/findings/C19_fin_lost_after_truncated_pto_probe_test.go"}}') \
//	    -vet=off -run TestC19FinLostAfterTruncatedPTOProbe ./quic/
//
// Scenario (found by /verif/check C19: scenario uni3/1200 bytes/pause, one
// 4 s black hole at datagram 7):
//
//  1. A stream holds more unacknowledged data than fits in one packet
//     (1300 bytes), and was then closed, so the FIN went out in a STREAM frame
//     of its own (packet F).
//  2. The PTO expires. The probe retransmits the unacknowledged data from the
//     start of the stream. Stream.appendOutFramesLocked computes
//     fin := outclosed.isSet() && off+size == out.end with the *requested*
//     size; packetWriter.appendStreamFrame truncates the frame to the packet
//     and therefore leaves the FIN bit off, but the stream still executes
//     outclosed.setSent(probe packet number).
//  3. The peer acknowledges everything except packet F. F is declared lost,
//     but outclosed.ackOrLoss(F, lost) no longer matches the recorded packet
//     number, so the FIN is not marked for retransmission; the probe packet's
//     sent-frame record has no FIN bit, so its acknowledgement does not mark
//     the FIN received either. Nothing is in flight, no PTO is armed: the FIN
//     is never sent again, the peer's Read never returns io.EOF and Close
//     blocks forever on a perfectly healthy connection.
//
// Suggested minimal fix (stream.go, appendOutFramesLocked, after
// appendStreamFrame): `if int64(len(b)) < size { fin = false }`.
package quic

import (
	"testing"
	"testing/synctest"
)

func TestC19FinLostAfterTruncatedPTOProbe(t *testing.T) {
	synctest.Test(t, func(t *testing.T) {
		tc, s := newTestConnAndLocalStream(t, serverSide, uniStream, func(p *transportParameters) {
			p.initialMaxStreamsUni = 1
			p.initialMaxData = 1 << 20
			p.initialMaxStreamDataUni = 1 << 20
		})
		tc.ignoreFrame(frameTypeAck)
		tc.ignoreFrame(frameTypePadding)

		const total = 1300
		s.Write(make([]byte, total))
		s.Flush()
		var sent int64
		for sent < total {
			f, _ := tc.readFrame()
			sf, ok := f.(debugFrameStream)
			if !ok {
				t.Fatalf("want STREAM frame, got %v", f)
			}
			if sf.fin {
				t.Fatalf("unexpected FIN before CloseWrite: %v", sf)
			}
			sent = sf.off + int64(len(sf.data))
		}
		lastData := tc.lastPacket.num

		s.CloseWrite()
		tc.wantFrame("FIN in a frame of its own", packetType1RTT, debugFrameStream{
			id: s.id, off: total, fin: true, data: []byte{},
		})
		finPacket := tc.lastPacket.num
		if finPacket != lastData+1 {
			t.Fatalf("FIN packet number %v, want %v", finPacket, lastData+1)
		}

		// PTO: the probe resends the head of the stream in a frame that is
		// truncated to the packet and hence carries no FIN.
		tc.triggerLossOrPTO(packetType1RTT, true)
		f, _ := tc.readFrame()
		sf, ok := f.(debugFrameStream)
		if !ok || sf.off != 0 || sf.fin || int64(len(sf.data)) >= total {
			t.Fatalf("want a truncated PTO probe STREAM frame at offset 0 without FIN, got %v", f)
		}
		probe := tc.lastPacket.num
		for { // drain whatever else the probe burst contains
			if f, _ := tc.readFrame(); f == nil {
				break
			}
		}
		last := tc.lastPacket.num

		// The peer has everything except the FIN packet.
		tc.writeFrames(packetType1RTT, debugFrameAck{
			ranges: []i64range[packetNumber]{{0, finPacket}, {probe, last + 1}},
		})

		// The FIN packet is now lost (time threshold: it is older than the
		// PTO). The stream was closed, so the FIN must be sent again.
		tc.wantFrame("FIN is retransmitted after its packet was lost", packetType1RTT, debugFrameStream{
			id: s.id, off: total, fin: true, data: []byte{},
		})
	})
}
