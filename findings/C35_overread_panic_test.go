// package-dir: internal/http3
//
// Stand-alone reproduction (plain Go tests, no vx) for the C35 finding
// "HEADERS frame whose field section runs past the frame limit (over-read) =>
// nil-pointer panic in the server's stream goroutine / in Response.Body.Close".
//
// Overlay into /repo/internal/http3 (package http3), e.g.
//
//	echo '{"Replace":{"/repo/internal/http3/zz_c35_overread_test.go":"/verif/findings/C35_overread_panic_test.go"}}' > /tmp/ov.json
//	cd /repo && /verif/tools/go.sh test -overlay /tmp/ov.json -vet=off -run 'TestC35Overread' -v ./internal/http3/
//
// Mechanism (unchanged tree): stream.recordBytesRead, on a read that goes past
// the end of the current frame, sets st.stream = nil ("panic if we try to read
// again") and returns an H3_FRAME_ERROR *connectionError. That is only safe if
// every caller reacts by aborting the connection without touching the stream
// again. For HEADERS frames it does not hold: the QPACK layer (readPrefixedInt,
// readPrefixedIntWithByte, ...) replaces the error by the bare http3Error
// errQPACKDecompressionFailed, which is neither a *connectionError nor a
// *streamError, and
//
//	server, message head: serverConn.parseHeader returns it,
//	        genericConn.handleStreamError takes its default branch and calls
//	        st.stream.CloseRead() on the nil *quic.Stream;
//	server, trailers: bodyReader.Read hands it to the handler as the Body.Read
//	        error; when the handler returns, responseWriter.close -> Flush ->
//	        stream.writeVarint -> (*quic.Stream)(nil).WriteByte panics, and the
//	        deferred req.Body.Close() panics again in (*quic.Stream)(nil).CloseRead;
//	client, trailers: Body.Read returns it; Response.Body.Close (which the
//	        application must call) -> rt.st.stream.Reset -> nil dereference on the
//	        caller's goroutine;
//	client, message head: safe by accident - clientConn.handleHeaders calls
//	        st.endFrame() afterwards, which turns lim == -1 into a
//	        *connectionError, and roundTripState.abort then only aborts the conn.
//
// The two server panics happen on the goroutine genericConn.acceptStreams
// starts for the request stream; nothing recovers there, so the process dies:
// any peer can kill a server with the 2-byte request stream "01 00" (an empty
// HEADERS frame), no handler involved.
//
// Candidate fix: findings/C35_overread_panic_fix.diff (recordBytesRead closes the
// read side of the QUIC stream instead of dropping the pointer: later reads still
// fail, closing / resetting the stream still works). With it the tests below
// pass, the package's tests pass and ./check C35 quick is quiet.
package http3

import (
	"fmt"
	"io"
	"net/http"
	"testing"
	"testing/synctest"
)

// HEADERS frame, 3 bytes: Required Insert Count 0, Delta Base 0, then 0xff =
// indexed field line whose 6-bit index prefix is all ones, so the integer
// continues in the next byte, which lies outside the frame.
var c35OverreadTrailer = []byte{0x01, 0x03, 0x00, 0x00, 0xff}

// Server: the handler reads the body to its end (it gets an error) and
// returns. Expected: the request fails in some orderly way. Observed on the
// unchanged tree: "panic: runtime error: invalid memory address or nil pointer
// dereference" on the goroutine serving the stream (this test binary dies).
func TestC35OverreadRequestTrailersServerPanics(t *testing.T) {
	synctest.Test(t, func(t *testing.T) {
		var readErr error
		ts := newTestServer(t, http.HandlerFunc(func(w http.ResponseWriter, r *http.Request) {
			_, readErr = io.ReadAll(r.Body)
		}))
		tc := ts.connect()
		tc.greet()
		st := tc.newStream(streamTypeRequest)
		section := []byte{0x00, 0x00, 0xd4, 0xd7, 0x51, 0x02, '/', 'c', 0x50, 0x01, 'h'} // POST https /c authority h
		st.writeVarint(int64(frameTypeHeaders))
		st.writeVarint(int64(len(section)))
		st.Write(section)
		st.Write(c35OverreadTrailer)
		st.Flush()
		st.stream.stream.CloseWrite()
		synctest.Wait() // the unchanged tree does not get past this line
		if readErr == nil || readErr == io.EOF {
			t.Errorf("Body.Read error = %v, want a frame error", readErr)
		}
		t.Logf("server survived; Body.Read error: %v; connection: %v", readErr, tc.qconn.Wait(canceledCtx))
	})
}

// Client: the response trailers over-read; the application then closes the
// response body, as it must.
func TestC35OverreadResponseTrailersClientPanics(t *testing.T) {
	synctest.Test(t, func(t *testing.T) {
		tc := newTestClientConn(t)
		tc.greet()
		req, _ := http.NewRequest("GET", "https://example.tld/", nil)
		var result string
		go func() {
			defer func() {
				if r := recover(); r != nil {
					result = fmt.Sprintf("panic: %v", r)
				}
			}()
			resp, err := tc.cc.RoundTrip(req)
			if err != nil {
				result = "RoundTrip: " + err.Error()
				return
			}
			_, err = io.ReadAll(resp.Body)
			result = fmt.Sprintf("Body.Read error %v", err)
			resp.Body.Close()
			result += ", Close returned"
		}()
		synctest.Wait()
		st := tc.streams[streamTypeRequest][0]
		qs := st.stream.stream
		qs.Write([]byte{0x01, 0x03, 0x00, 0x00, 0xd9}) // HEADERS: :status 200
		qs.Write(c35OverreadTrailer)
		qs.CloseWrite()
		synctest.Wait()
		t.Log(result)
		if len(result) >= 6 && result[:6] == "panic:" {
			t.Errorf("Response.Body.Close after over-read response trailers: %s", result)
		}
	})
}

// Server, message head: the over-read happens in parseHeader. The QPACK layer
// turns the H3_FRAME_ERROR connection error of recordBytesRead into a bare
// errQPACKDecompressionFailed, so genericConn.handleStreamError takes its
// default branch, st.stream.CloseRead() - on the nil stream. No handler is
// involved: the 2-byte request "empty HEADERS frame" (and likewise 01 01 00,
// 01 03 00 00 ff, ...) kills the process on the unchanged tree.
func TestC35OverreadRequestHeadServerPanics(t *testing.T) {
	for _, frame := range [][]byte{
		{0x01, 0x00},                   // empty field section: the Required Insert Count byte is outside the frame
		{0x01, 0x01, 0x00},             // Delta Base outside the frame
		{0x01, 0x03, 0x00, 0x00, 0xff}, // continuation of a field line index outside the frame
	} {
		synctest.Test(t, func(t *testing.T) {
			ts := newTestServer(t, http.HandlerFunc(func(w http.ResponseWriter, r *http.Request) {}))
			tc := ts.connect()
			tc.greet()
			st := tc.newStream(streamTypeRequest)
			st.Write(frame)
			st.Flush()
			synctest.Wait() // the unchanged tree does not get past this line
			t.Logf("request stream %x: server survived; connection: %v", frame, tc.qconn.Wait(canceledCtx))
		})
	}
}

// Client, message head: no panic on the unchanged tree (see above); kept as a
// guard for a fix that removes the endFrame call or changes its order.
func TestC35OverreadResponseHeadClientPanics(t *testing.T) {
	synctest.Test(t, func(t *testing.T) {
		tc := newTestClientConn(t)
		tc.greet()
		req, _ := http.NewRequest("GET", "https://example.tld/", nil)
		var result string
		go func() {
			defer func() {
				if r := recover(); r != nil {
					result = fmt.Sprintf("panic: %v", r)
				}
			}()
			_, err := tc.cc.RoundTrip(req)
			result = fmt.Sprintf("RoundTrip error %v", err)
		}()
		synctest.Wait()
		qs := tc.streams[streamTypeRequest][0].stream.stream
		qs.Write([]byte{0x01, 0x00}) // empty HEADERS frame
		qs.Flush()
		synctest.Wait()
		t.Log(result)
		if len(result) >= 6 && result[:6] == "panic:" {
			t.Errorf("RoundTrip on a response that starts with an empty HEADERS frame: %s", result)
		}
	})
}
