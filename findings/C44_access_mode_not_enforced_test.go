// Stand-alone reproduction (plain Go test, no vx) of the C44 findings
//
//	C44/Write/file/rdonly/impl=ok,ref=err
//	C44/Read/file/wronly/impl=ok,ref=err
//
// Overlay into package directory webdav (package webdav; exported API only):
//
//	echo '{"Replace":{"/repo/webdav/zz_c44_finding6_test.go":"/verif/findings/C44_access_mode_not_enforced_test.go"}}' > /verif/.work/c44_f6.json
//	cd /repo && /verif/tools/go.sh test -overlay /verif/.work/c44_f6.json -vet=off -run TestC44Finding -v ./webdav/
//
// os.OpenFile's access mode is part of its semantics: a file opened O_RDONLY
// cannot be written, one opened O_WRONLY cannot be read (EBADF). memFS.OpenFile
// uses the mode only for the root check and for O_TRUNC; the returned memFile
// does not remember it, so Write on an O_RDONLY handle modifies the file and
// Read on an O_WRONLY handle returns its bytes.
//
// Not a one-line fix: memFile needs a field for the access mode and a check in
// Read and Write (about six lines; the struct's users in this package always
// open with the mode they need, so package tests would stay green). The source
// marks the neighbouring topic "TODO: Enforce file permissions", so this looks
// like a known limitation rather than an oversight: classify as known finding.
package webdav

import (
	"context"
	"os"
	"testing"
)

func TestC44Finding_AccessModeNotEnforced(t *testing.T) {
	ctx := context.Background()
	ref := Dir(t.TempDir())
	impl := NewMemFS()
	var werr, rerr [2]error
	for i, fs := range []FileSystem{ref, impl} {
		f, err := fs.OpenFile(ctx, "/f", os.O_RDWR|os.O_CREATE, 0666)
		if err != nil {
			t.Fatal(err)
		}
		f.Write([]byte("hello"))
		f.Close()

		ro, err := fs.OpenFile(ctx, "/f", os.O_RDONLY, 0)
		if err != nil {
			t.Fatal(err)
		}
		_, werr[i] = ro.Write([]byte("X"))
		ro.Close()

		wo, err := fs.OpenFile(ctx, "/f", os.O_WRONLY, 0)
		if err != nil {
			t.Fatal(err)
		}
		_, rerr[i] = wo.Read(make([]byte, 1))
		wo.Close()
	}
	t.Logf("Write on an O_RDONLY handle: native %v, memFS %v", werr[0], werr[1])
	t.Logf("Read on an O_WRONLY handle: native %v, memFS %v", rerr[0], rerr[1])
	if (werr[0] == nil) != (werr[1] == nil) {
		t.Errorf("Write on an O_RDONLY handle: os %v, memFS %v", werr[0], werr[1])
	}
	if (rerr[0] == nil) != (rerr[1] == nil) {
		t.Errorf("Read on an O_WRONLY handle: os %v, memFS %v", rerr[0], rerr[1])
	}
}
