// Stand-alone reproduction of the C48 violations found on the unchanged tree.
// Overlay (or copy) this file into /repo/bpf/ (package bpf) and run
//
//	go test -run 'TestC48Finding' ./bpf/
//
// Every sub-test FAILS on the pinned tree; its name is the check signature.
//
// Property C48 as stated: "Disassembling the result of Assemble yields the
// original instruction for every instruction value Assemble accepts, and for
// every raw instruction that disassembles to a known instruction type,
// assembling that instruction reproduces the raw instruction exactly."
//
// None of the nine cases changes what a filter computes (each pair of values
// denotes the same machine instruction or differs only in bits the kernel
// ignores or rejects); they are violations of the *exact* round trip only:
// Disassemble ignores don't-care bits and fields instead of returning the
// RawInstruction unchanged, and Assemble accepts typed values that share their
// encoding with another typed value.
package bpf

import "testing"

func TestC48Finding(t *testing.T) {
	raw := []struct {
		sig string
		ri  RawInstruction
	}{
		// Op is 16 bits wide; the masks in Disassemble only look at the low byte.
		{"C48/raw-roundtrip/op-high-byte-ignored", RawInstruction{Op: 0x0100}},
		// Jt/Jf are ignored for everything but conditional jumps.
		{"C48/raw-roundtrip/jt-jf-ignored-on-non-conditional-jump", RawInstruction{Op: 0x00, Jt: 1}},
		// K is ignored by instructions without an immediate operand (add x).
		{"C48/raw-roundtrip/k-ignored-on-instruction-without-operand", RawInstruction{Op: 0x0c, K: 1}},
		// "ja" with the X source bit, "ldx [k]", "ld 4*([k]&0xf)", ... decode to the typed
		// instruction of the canonical opcode.
		{"C48/raw-roundtrip/op-low-byte-bits-ignored", RawInstruction{Op: 0x0d}},
		// ld [SKF_AD_OFF+1] decodes to LoadExtension{ExtLen}, which assembles to "ld #len".
		{"C48/raw-roundtrip/extension-1-aliases-len", RawInstruction{Op: 0x20, K: 0xfffff001}},
	}
	for _, c := range raw {
		t.Run(c.sig, func(t *testing.T) {
			ins := c.ri.Disassemble()
			if _, isRaw := ins.(RawInstruction); isRaw {
				return // not recognised: nothing to round-trip
			}
			back, err := ins.Assemble()
			if err != nil || back != c.ri {
				t.Errorf("Disassemble(%+v) = %#v, which assembles to %+v (err %v)", c.ri, ins, back, err)
			}
		})
	}
	typed := []struct {
		sig string
		ins Instruction
	}{
		// -> LoadExtension{Num: 0}
		{"C48/typed-roundtrip/load-absolute-offset-in-extension-range", LoadAbsolute{Off: 0xfffff000, Size: 4}},
		// -> LoadAbsolute{Off: 0, Size: 4}
		{"C48/typed-roundtrip/extension-number-outside-window", LoadExtension{Num: 0x1000}},
		// Assemble does not validate the operator: 0x80 is neg -> NegateA{}; 0xb0 -> RawInstruction; 1 -> Jump.
		{"C48/typed-roundtrip/undefined-alu-operator-accepted", ALUOpX{Op: 0x80}},
		// jeq with jt == 0 is disassembled as JumpNotEqual (golang/go#18470) -> JumpIf{JumpNotEqual, 7, SkipTrue: 5}
		{"C48/typed-roundtrip/conditional-jump-not-in-canonical-skip-form", JumpIf{Cond: JumpEqual, Val: 7, SkipTrue: 0, SkipFalse: 5}},
	}
	for _, c := range typed {
		t.Run(c.sig, func(t *testing.T) {
			ri, err := c.ins.Assemble()
			if err != nil {
				return // not accepted: nothing to round-trip
			}
			if back := ri.Disassemble(); back != c.ins {
				t.Errorf("%#v assembles to %+v, which disassembles to %#v", c.ins, ri, back)
			}
		})
	}
}
