// Stand-alone reproduction (plain Go test, no vx) of the C44 finding
//
//	C44/RemoveAll/missing-parent/impl=err,ref=ok
//
// Overlay into package directory webdav (package webdav; exported API only):
//
//	echo '{"Replace":{"/repo/webdav/zz_c44_finding1_test.go":"/verif/findings/C44_removeall_missing_parent_test.go"}}' > /verif/.work/c44_f1.json
//	cd /repo && /verif/tools/go.sh test -overlay /verif/.work/c44_f1.json -vet=off -run TestC44Finding -v ./webdav/
//
// The FileSystem contract says "Each method has the same semantics as the os
// package's function of the same name". os.RemoveAll "returns nil if the path
// does not exist"; that includes a path whose parent does not exist. memFS
// returns nil only when the parent exists: RemoveAll("/x/y") with "/x" absent
// goes through memFS.find -> walk, which fails with ErrNotExist at the missing
// intermediate directory, and RemoveAll returns that error.
//
// Visible through the Handler: copyFiles tolerates it (`!os.IsNotExist(err)`),
// moveFiles and handleDelete stat first, so the practical impact is small.
//
// Minimal fix (package tests stay green, checked in a scratch tree): in
// memFS.RemoveAll
//
//	dir, frag, err := fs.find("remove", name)
//	if err != nil {
//		if os.IsNotExist(err) {
//			return nil
//		}
//		return err
//	}
package webdav

import (
	"context"
	"testing"
)

func TestC44Finding_RemoveAllMissingParent(t *testing.T) {
	ctx := context.Background()
	ref := Dir(t.TempDir())
	impl := NewMemFS()
	re := ref.RemoveAll(ctx, "/x/y")
	ie := impl.RemoveAll(ctx, "/x/y")
	t.Logf(`RemoveAll("/x/y") with /x absent: Dir (os.RemoveAll) = %v, memFS = %v`, re, ie)
	if (re == nil) != (ie == nil) {
		t.Errorf("memFS and the os package disagree: os %v, memFS %v", re, ie)
	}
}
