// Stand-alone reproduction for C37 signatures
//   C37/repack/pack-error/resource-length-too-long/OPT
//   C37/repack/pack-error/resource-length-too-long/SVCB
//
// Overlay (or copy) into /repo/dns/dnsmessage (black-box is enough, but the
// file declares package dnsmessage to sit next to the other tests), e.g.
//   echo '{"Replace":{"/repo/dns/dnsmessage/zz_c37b_test.go":"/verif/findings/C37_repack_too_long_test.go"}}' > /tmp/o.json
//   cd /repo && /verif/tools/go.sh test -overlay /tmp/o.json -vet=off -run TestFindingC37Repack ./dns/dnsmessage/
//
// Both tests FAIL on the pinned tree: Message.Unpack accepts the input, but
// Pack of the resulting Message fails with "resource length too long", so
// "any message Unpack accepts re-packs" does not hold. Both inputs are larger
// than 65535 bytes (they cannot arrive in one DNS-over-TCP frame, but Unpack
// takes any byte slice).
//
//  1. OPT: unpackOPTResource does not bound an option's data by the record's
//     RDLENGTH, only by the end of the message, so an OPT record with
//     RDLENGTH 1 can yield an option of 65532 data bytes (4+65532 > 65535).
//     Suggested fix: reject an option when off+int(l) > oldOff+int(length).
//  2. SVCB/HTTPS: the target name may be compressed on input (RFC 9460 forbids
//     it, the parser follows the pointer) and is always written uncompressed,
//     so RDATA can grow by up to 253 bytes past 65535.
package dnsmessage

import "testing"

func TestFindingC37RepackOPT(t *testing.T) {
	msg := []byte{0, 1, 0x81, 0x80, 0, 0, 0, 0, 0, 0, 0, 1, // header: ARCOUNT = 1
		0, 0, 41, 0x10, 0, 0, 0, 0, 0, // root, TYPE OPT, CLASS 4096, TTL 0
		0, 1, // RDLENGTH = 1
		0, 10, 0xff, 0xfc, // option code 10, option length 65532
	}
	msg = append(msg, make([]byte, 65532)...)
	var m Message
	if err := m.Unpack(msg); err != nil {
		t.Skipf("Unpack rejects the input (fixed?): %v", err)
	}
	opt := m.Additionals[0].Body.(*OPTResource)
	t.Logf("Unpack accepts: RDLENGTH %d, %d option(s), first option has %d data bytes", m.Additionals[0].Header.Length, len(opt.Options), len(opt.Options[0].Data))
	if _, err := m.Pack(); err != nil {
		t.Errorf("Pack of the message Unpack accepted fails: %v", err)
	}
}

func TestFindingC37RepackSVCB(t *testing.T) {
	long := ""
	for _, l := range []struct {
		c byte
		n int
	}{{'p', 63}, {'q', 63}, {'r', 63}, {'s', 61}} {
		for i := 0; i < l.n; i++ {
			long += string(l.c)
		}
		long += "."
	}
	q := Message{Questions: []Question{{Name: MustNewName(long), Type: TypeSVCB, Class: ClassINET}}}
	msg, err := q.Pack()
	if err != nil {
		t.Fatal(err)
	}
	msg[7] = 1 // ANCOUNT = 1
	const rdlen = 65535
	msg = append(msg, 0xc0, 12, 0, 64, 0, 1, 0, 0, 0, 0, rdlen>>8, rdlen&0xff) // owner = pointer to the question name, TYPE SVCB
	msg = append(msg, 0, 1, 0xc0, 12)                                         // priority 1, target = pointer to the question name
	vl := rdlen - 8
	msg = append(msg, 0, 7, byte(vl>>8), byte(vl)) // one parameter filling the rest of RDATA
	msg = append(msg, make([]byte, vl)...)
	var m Message
	if err := m.Unpack(msg); err != nil {
		t.Skipf("Unpack rejects the input (fixed?): %v", err)
	}
	if _, err := m.Pack(); err != nil {
		t.Errorf("Pack of the message Unpack accepted fails: %v", err)
	}
}
