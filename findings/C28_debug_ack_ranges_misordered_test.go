// Stand-alone reproductions for two C28 findings on the unchanged tree.
// Overlay into the package directory /repo/quic (package quic, white-box):
//
//	echo '{"Replace":{"/repo/quic/zz_c28_repro_test.go":"/verif/findings/C28_debug_ack_ranges_misordered_test.go"}}' > /tmp/ov.json
//	cd /repo && /verif/tools/go.sh test -overlay /tmp/ov.json -vet=off -run 'TestC28' ./quic/
//
// 1. signature C28/frame/debug-ack-parser-ranges-misordered
//    parseDebugFrameAck (frame_debug.go; used by parseDebugFrame, i.e. by the qlog
//    "packet_sent"/"packet_received" events and by logPackets) reverses the ranges it
//    collected high-to-low with
//        for i := 0; i < len(f.ranges)/2; i++ { j := len(f.ranges) - 1; swap(i, j) }
//    j does not depend on i, so for four or more ranges the result is not ascending
//    (e.g. [d c b a] as collected becomes [a d b c] instead of [a b c d]). Every ACK
//    frame with >= 4 ranges that the packet writer emits therefore does not parse back
//    to the same frame. The packet_codec_test vectors have at most 3 ranges.
//    Minimal fix: j := len(f.ranges) - 1 - i.
//
// 2. signature C28/frame/out-of-range-accepted:streams_blocked
//    consumeStreamsBlockedFrame accepts a Maximum Streams value above 2^60 (and
//    Conn.handleFrames ignores the value), although RFC 9000 §19.14 requires a
//    connection error (FRAME_ENCODING_ERROR / STREAM_LIMIT_ERROR); its sibling
//    consumeMaxStreamsFrame does refuse such values.
//    Minimal fix: `if max > maxStreamsLimit { return 0, 0, -1 }` in consumeStreamsBlockedFrame.
package quic

import (
	"reflect"
	"testing"
)

func TestC28DebugAckRangesMisordered(t *testing.T) {
	f := debugFrameAck{ranges: []i64range[packetNumber]{{0, 1}, {2, 3}, {4, 5}, {6, 7}}}
	var w packetWriter
	w.reset(1200)
	w.start1RTTPacket(0, 0, nil)
	if !f.write(&w) {
		t.Fatal("write failed")
	}
	got, n := parseDebugFrame(w.payload())
	if n != len(w.payload()) {
		t.Fatalf("parse consumed %d of %d bytes", n, len(w.payload()))
	}
	if !reflect.DeepEqual(got, f) {
		t.Errorf("ACK frame with 4 ranges does not parse back:\nwrote %v\n  got %v", f, got)
	}
}

func TestC28StreamsBlockedAboveLimitAccepted(t *testing.T) {
	// STREAMS_BLOCKED (bidi), Maximum Streams = 2^60+1
	b := []byte{0x16, 0xd0, 0, 0, 0, 0, 0, 0, 1}
	if _, max, n := consumeStreamsBlockedFrame(b); n >= 0 {
		t.Errorf("consumeStreamsBlockedFrame accepted Maximum Streams = %d (> 2^60), n=%d", max, n)
	}
	// the sibling frame is refused
	if _, _, n := consumeMaxStreamsFrame([]byte{0x12, 0xd0, 0, 0, 0, 0, 0, 0, 1}); n >= 0 {
		t.Errorf("consumeMaxStreamsFrame accepted 2^60+1")
	}
}
