// Stand-alone reproduction of the C50 violations found on the unchanged tree.
// Overlay (or copy) this file into /repo/idna/ (package idna_test works too;
// only exported API is used) and run with the pinned toolchain (go1.25.0,
// unicode.Version == "15.0.0"):
//
//	go test -run 'TestC50Finding' ./idna/
//
// Every sub-test FAILS on the pinned tree; its name is the check signature.
//
// Which idna source is compiled: the pinned tree has a single idna.go (no
// idna9.0.0.go / idna10.0.0.go any more) plus tables15.0.0.go (//go:build
// !go1.27; tables17.0.0.go needs go1.27). idna.go switches behaviour on
// `const unicode16 = unicode.Version >= "16.0.0"`, which is FALSE here.
//
// Property C50: "Every IDNA profile rejects an 'xn--' label whose Punycode
// payload is invalid or decodes to only ASCII, so no two distinct accepted
// ASCII names denote the same Unicode name through such a label. For any input
// ToASCII accepts, ToASCII is idempotent and ToASCII(ToUnicode(x)) equals
// ToASCII(x)."
package idna

import "testing"

func TestC50Finding(t *testing.T) {
	profiles := map[string]*Profile{
		"Punycode": Punycode, "Lookup": Lookup, "Display": Display, "Registration": Registration,
		"New()": New(), "New(MapForLookup,Transitional)": New(MapForLookup(), Transitional(true)),
		"New(ValidateLabels)": New(ValidateLabels(true)),
	}

	// (a) idna.go process():  if unicode16 && err == nil && len(u) > 0 && isASCII(u) { err = punyError(enc) }
	// The rejection of A-labels that decode to ASCII only is guarded by
	// unicode16 and therefore dead with the pinned toolchain: "xn--abc-" and
	// "abc" are two accepted spellings of the same name in every profile.
	// Minimal fix tried in a scratch worktree: drop "unicode16 &&" from that
	// condition -> idna, http/httpguts, http/httpproxy, publicsuffix tests pass
	// and this signature disappears.
	t.Run("C50/a-label/ascii-only-payload-accepted", func(t *testing.T) {
		for name, p := range profiles {
			for _, x := range []string{"xn--abc-", "xn--a-", "xn--abc-.com"} {
				if a, err := p.ToASCII(x); err == nil {
					t.Errorf("%s.ToASCII(%q) = %q, nil; the A-label decodes to ASCII only and must be rejected", name, x, a)
				}
				if u, err := p.ToUnicode(x); err == nil {
					t.Errorf("%s.ToUnicode(%q) = %q, nil", name, x, u)
				}
			}
		}
	})

	// (b) decode("") returns "", nil and the ASCII-only test above has
	// "len(u) > 0": the bare prefix "xn--" is accepted as an empty label by
	// every profile that does not verify DNS length ("a.xn--" == "a.").
	// UTS 46 (rev. 33, section 4, step 4.3) records an error for an empty decoded label.
	t.Run("C50/a-label/empty-payload-accepted", func(t *testing.T) {
		for _, name := range []string{"Punycode", "Lookup", "Display", "New()", "New(MapForLookup,Transitional)", "New(ValidateLabels)"} {
			if a, err := profiles[name].ToASCII("a.xn--"); err == nil {
				t.Errorf("%s.ToASCII(\"a.xn--\") = %q, nil", name, a)
			}
		}
	})

	// (c) punycode.go decode() copies the part before the last '-' without
	// checking that it is ASCII (RFC 3492 6.2: "fail on any non-basic code
	// point"): "xn--ü-" decodes to "ü", so "xn--ü-" and "xn--tda" are two
	// accepted spellings of "ü".
	t.Run("C50/a-label/non-ascii-payload-accepted", func(t *testing.T) {
		for _, name := range []string{"Punycode", "Lookup", "Display", "Registration"} {
			if a, err := profiles[name].ToASCII("xn--ü-"); err == nil {
				t.Errorf("%s.ToASCII(\"xn--ü-\") = %q, nil; the payload contains a non-ASCII code point", name, a)
			}
		}
	})
	// Extended fix tried in a scratch worktree for (a)+(b)+(c): after decode,
	// `if err2 == nil && !isASCII(enc) { err2 = punyError(enc) }` and
	// `if err == nil && isASCII(u) { err = punyError(enc) }` -> same packages'
	// tests pass, all three a-label signatures disappear.

	// (d) New(ValidateLabels(true)) only NFC-normalises U-label input: the rune
	// validity check of validateLabel is inside `if unicode16 && ...`. The
	// A-label it produces is then rejected by its own validateFromPunycode.
	t.Run("C50/idempotence/output-rejected/validate-only", func(t *testing.T) {
		p := profiles["New(ValidateLabels)"]
		for _, x := range []string{"BÜCHER", "a。a", "İ"} {
			a, err := p.ToASCII(x)
			if err != nil {
				continue
			}
			if a2, err2 := p.ToASCII(a); err2 != nil || a2 != a {
				t.Errorf("ToASCII(%q) = %q, nil but ToASCII(%q) = %q, %v", x, a, a, a2, err2)
			}
		}
	})

	// (e) Profiles without CheckHyphens accept an A-label whose decoding itself
	// starts with "xn--": ToUnicode yields "xn--é", which the same profile's
	// ToASCII rejects.
	t.Run("C50/roundtrip/tounicode-output-rejected/raw", func(t *testing.T) {
		for _, name := range []string{"Punycode", "New()"} {
			p := profiles[name]
			x := "xn--xn---epa"
			a, errA := p.ToASCII(x)
			u, errU := p.ToUnicode(x)
			if errA != nil || errU != nil {
				continue
			}
			if a3, err3 := p.ToASCII(u); err3 != nil || a3 != a {
				t.Errorf("%s: ToASCII(%q) = %q, ToUnicode = %q, but ToASCII(%q) = %q, %v", name, x, a, u, u, a3, err3)
			}
		}
	})
}
