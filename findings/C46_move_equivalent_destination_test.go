// Stand-alone reproduction (plain Go test, no vx) of
//
//	C46/move/source-destroyed/equivalent-destination-spelling
//
// Overlay into the package directory /repo/webdav (package webdav), e.g.
//
//	cp C46_move_equivalent_destination_test.go <scratch>/webdav/zz_c46_move_eq_test.go
//	cd <scratch> && /verif/tools/go.sh test -vet=off -run TestC46MoveOntoEquivalentSpelling ./webdav/
//
// The MOVE analogue of the COPY defect. "MOVE /a" with "Destination: /a/" and
// "Overwrite: T" passes the string comparison dst == src. Without an If header
// the handler's temporary locks on "/a" and "/a/" collide (423, nothing
// happens), but when the client holds a lock on the resource and presents its
// token — the normal way to move a locked resource — memLS.Confirm resolves
// both names to the same lock and the request proceeds: moveFiles performs the
// Overwrite deletion fs.RemoveAll("/a/"), which deletes the source, and the
// following Rename("/a", "/a/") is a no-op on memFS (204 No Content) or fails
// on Dir (403). Either way the resource is gone and was not moved anywhere.
//
// Suggested minimal fix: the same one-line change as for COPY (webdav.go,
// handleCopyMove): `if slashClean(dst) == slashClean(src)` -> 403.
package webdav

import (
	"context"
	"net/http/httptest"
	"os"
	"testing"
	"time"
)

func TestC46MoveOntoEquivalentSpelling(t *testing.T) {
	ctx := context.Background()
	fs := NewMemFS()
	f, err := fs.OpenFile(ctx, "/a", os.O_RDWR|os.O_CREATE, 0666)
	if err != nil {
		t.Fatal(err)
	}
	f.Write([]byte("precious"))
	f.Close()

	ls := NewMemLS()
	token, err := ls.Create(time.Now(), LockDetails{Root: "/a", Duration: -1})
	if err != nil {
		t.Fatal(err)
	}
	h := &Handler{FileSystem: fs, LockSystem: ls}
	req := httptest.NewRequest("MOVE", "http://example.com/a", nil)
	req.Header.Set("Destination", "/a/")
	req.Header.Set("Overwrite", "T")
	req.Header.Set("If", "(<"+token+">)")
	rec := httptest.NewRecorder()
	h.ServeHTTP(rec, req)

	if _, err := fs.Stat(ctx, "/a"); err != nil {
		t.Errorf("MOVE /a with Destination /a/ (status %d): the resource is gone and was not moved anywhere: %v", rec.Code, err)
	}
}
