// Stand-alone reproduction (plain Go test, no vx) of the C44 finding
//
//	C44/Readdir/dir-partially-read/n<=0/result-differs:count
//
// Overlay into package directory webdav (package webdav; exported API only):
//
//	echo '{"Replace":{"/repo/webdav/zz_c44_finding4_test.go":"/verif/findings/C44_readdir_all_after_partial_test.go"}}' > /verif/.work/c44_f4.json
//	cd /repo && /verif/tools/go.sh test -overlay /verif/.work/c44_f4.json -vet=off -run TestC44Finding -v ./webdav/
//
// os.File.Readdir(n) with n <= 0 returns "all the FileInfo from the directory"
// that have not been returned yet: after Readdir(1) on a directory with two
// entries, Readdir(-1) (or Readdir(0)) returns the one remaining entry.
// memFile.Readdir resets its start index in the n <= 0 branch
//
//	} else {
//		f.pos = len(f.childrenSnapshot)
//		old = 0
//	}
//	return f.childrenSnapshot[old:f.pos], nil
//
// so it returns the whole directory again, including the entry that the
// previous call already delivered (http.File users that page with n > 0 and
// finish with n <= 0 see duplicates).
//
// Minimal fix (package tests stay green, checked in a scratch tree): delete the
// line `old = 0`.
package webdav

import (
	"context"
	"os"
	"testing"
)

func TestC44Finding_ReaddirAllAfterPartial(t *testing.T) {
	ctx := context.Background()
	ref := Dir(t.TempDir())
	impl := NewMemFS()
	var got [2][]int
	for i, fs := range []FileSystem{ref, impl} {
		for _, d := range []string{"/a", "/b"} {
			if err := fs.Mkdir(ctx, d, 0777); err != nil {
				t.Fatal(err)
			}
		}
		f, err := fs.OpenFile(ctx, "/", os.O_RDONLY, 0)
		if err != nil {
			t.Fatal(err)
		}
		first, err1 := f.Readdir(1)
		rest, err2 := f.Readdir(-1)
		f.Close()
		if err1 != nil || err2 != nil {
			t.Fatalf("Readdir errors: %v, %v", err1, err2)
		}
		got[i] = []int{len(first), len(rest)}
		seen := map[string]bool{}
		for _, fi := range append(first, rest...) {
			if seen[fi.Name()] {
				t.Errorf("%T returned entry %q twice", fs, fi.Name())
			}
			seen[fi.Name()] = true
		}
	}
	t.Logf("directory with 2 entries, Readdir(1) then Readdir(-1): Dir (os) returned %v entries, memFS %v", got[0], got[1])
	if got[0][1] != got[1][1] {
		t.Errorf("Readdir(-1) after Readdir(1): os returns the %d remaining entries, memFS returns %d", got[0][1], got[1][1])
	}
}
