// Stand-alone reproduction for C60 (signature
// C60/ipv4hdr/reused-receiver/options/none-after-some).
//
// Overlay into the package directory /repo/ipv4 (package ipv4_test, black-box), e.g.
//
//	echo '{"Replace":{"/repo/ipv4/zz_c60_repro_test.go":"/verif/findings/C60_header_parse_reused_receiver_keeps_options_test.go"}}' > /tmp/ov.json
//	cd /repo && /verif/tools/go.sh test -overlay /tmp/ov.json -vet=off -run 'TestC60HeaderParseReusedReceiverKeepsOptions' ./ipv4/
//
// What it shows: (*Header).Parse ("parses b as an IPv4 header and stores the
// result in h") touches h.Options only when the parsed header has options:
//
//	optlen := hdrlen - HeaderLen
//	if optlen > 0 && len(b) >= hdrlen { ...resize h.Options to optlen and copy... }
//
// When h already holds options (from a previous Parse in a receive loop
// `var h Header; for { h.Parse(buf) }`, or set by the caller) and b is a
// header WITHOUT options, h.Options keeps the old octets while h.Len becomes
// 20. The receiver is then not the header that was marshalled, and
// h.Marshal() (which sizes the header from len(h.Options)) emits a 24-byte
// header with IHL 6 carrying the previous datagram's options.
// ParseHeader (always a fresh Header) is not affected, which is why the
// package tests and the single-shot round trip do not see it.
//
// Property C60 as stated: "IPv4 headers ... likewise survive marshal and
// parse."
//
// Possible minimal fix (findings/C60_fix_header_parse_reset_options.diff):
// reset the slice when the header has no options,
//
//	if optlen > 0 && len(b) >= hdrlen { ... } else { h.Options = h.Options[:0] }
//
// (h.Options[:0] of a nil slice is nil, so fresh receivers are unchanged).
package ipv4_test

import (
	"bytes"
	"net"
	"testing"

	"golang.org/x/net/ipv4"
)

func TestC60HeaderParseReusedReceiverKeepsOptions(t *testing.T) {
	mk := func(opts []byte) *ipv4.Header {
		return &ipv4.Header{Version: ipv4.Version, Len: ipv4.HeaderLen + len(opts), TotalLen: ipv4.HeaderLen + len(opts), TTL: 64, Protocol: 1,
			Src: net.IPv4(192, 0, 2, 1), Dst: net.IPv4(192, 0, 2, 2), Options: opts}
	}
	withOpts, err := mk([]byte{0x94, 0x04, 0x00, 0x00}).Marshal()
	if err != nil {
		t.Fatal(err)
	}
	plain, err := mk(nil).Marshal()
	if err != nil {
		t.Fatal(err)
	}
	var h ipv4.Header // one receiver for every datagram
	if err := h.Parse(withOpts); err != nil {
		t.Fatal(err)
	}
	if err := h.Parse(plain); err != nil {
		t.Fatal(err)
	}
	if len(h.Options) != 0 || h.Len != ipv4.HeaderLen+len(h.Options) {
		t.Errorf("after parsing a header without options the receiver has Len=%d and Options=%x (left over from the previous datagram)", h.Len, h.Options)
	}
	again, err := h.Marshal()
	if err != nil {
		t.Fatal(err)
	}
	if !bytes.Equal(again, plain) {
		t.Errorf("re-marshalled header differs from the parsed one:\n got %x\nwant %x", again, plain)
	}
}
