// Stand-alone reproduction (plain Go test, no vx) of the C44 finding
//
//	C44/OpenFile/dir/write-flags/impl=ok,ref=err
//
// Overlay into package directory webdav (package webdav; exported API only):
//
//	echo '{"Replace":{"/repo/webdav/zz_c44_finding2_test.go":"/verif/findings/C44_open_directory_for_writing_test.go"}}' > /verif/.work/c44_f2.json
//	cd /repo && /verif/tools/go.sh test -overlay /verif/.work/c44_f2.json -vet=off -run TestC44Finding -v ./webdav/
//
// os.OpenFile of an existing directory with O_WRONLY, O_RDWR or O_CREATE fails
// (EISDIR). memFS.OpenFile checks this only for the root (ErrPermission); any
// other directory is opened successfully with every write flag combination
// (O_TRUNC even runs `n.data = nil` on the directory node). Only the later
// Write fails (ErrInvalid).
//
// No minimal fix: refusing the open (3 lines, `if n.mode.IsDir() && flag&(O_WRONLY|O_RDWR|O_CREATE) != 0`)
// breaks the package itself — prop.go's patch() opens every resource,
// directories included, with os.O_RDWR to store dead properties, and
// TestMemPS's "proppatch ... /dir" cases then fail with "permission denied"
// (tried in a scratch tree). It also changes PUT-on-a-collection from 405 to
// 404 on memFS. So this is a known, deliberate-looking divergence.
package webdav

import (
	"context"
	"os"
	"testing"
)

func TestC44Finding_OpenDirectoryForWriting(t *testing.T) {
	ctx := context.Background()
	ref := Dir(t.TempDir())
	impl := NewMemFS()
	for _, fs := range []FileSystem{ref, impl} {
		if err := fs.Mkdir(ctx, "/d", 0777); err != nil {
			t.Fatal(err)
		}
	}
	for _, fl := range []struct {
		name string
		flag int
	}{
		{"O_WRONLY", os.O_WRONLY},
		{"O_RDWR", os.O_RDWR},
		{"O_RDWR|O_CREATE", os.O_RDWR | os.O_CREATE},
		{"O_WRONLY|O_CREATE|O_TRUNC", os.O_WRONLY | os.O_CREATE | os.O_TRUNC},
		{"O_RDWR|O_TRUNC", os.O_RDWR | os.O_TRUNC},
	} {
		rf, re := ref.OpenFile(ctx, "/d", fl.flag, 0666)
		if rf != nil {
			rf.Close()
		}
		mf, ie := impl.OpenFile(ctx, "/d", fl.flag, 0666)
		if mf != nil {
			mf.Close()
		}
		t.Logf(`OpenFile("/d" (a directory), %s): Dir (os.OpenFile) = %v, memFS = %v`, fl.name, re, ie)
		if (re == nil) != (ie == nil) {
			t.Errorf("%s: memFS and the os package disagree: os %v, memFS %v", fl.name, re, ie)
		}
	}
}
