//go:build !(go1.27 && !http2legacy)

// Stand-alone reproduction of the C15 finding
//   C15/settings-ack/count-differs/after-client-stopped-reading
//
// Overlay into /repo/http2 (package http2_test):
//   echo '{"Replace":{"/repo/http2/zz_c15_repro2_test.go":"/verif/findings/C15_settings_ack_coalesced_test.go"}}' > /tmp/scratch/ov.json
//   cd /repo && /verif/tools/go.sh test -overlay /tmp/scratch/ov.json -vet=off -run TestC15SettingsAckCoalesced ./http2/
//
// serverConn.needToSendSettingsAck is a bool. While a frame write is in
// progress (here: the flush of a PING ack is stuck because the client does not
// read), every further SETTINGS frame only sets the flag again, so N SETTINGS
// frames are answered with a single ACK once the writer is free. RFC 9113
// §6.5.3 requires one acknowledgement per SETTINGS frame (processSettings has a
// TODO saying so).
package http2_test

import (
	"testing"
	"testing/synctest"

	. "golang.org/x/net/http2"
)

func TestC15SettingsAckCoalesced(t *testing.T) {
	synctestTest(t, func(t testing.TB) {
		st := newServerTester(t, nil)
		st.greet()
		cli := st.cc.(*synctestNetConn)
		cli.SetReadBufferSize(1) // the client stops reading: the server's writes block
		st.writePing(false, [8]byte{1})
		st.writeSettings(Setting{ID: SettingEnablePush, Val: 0})
		st.writeSettings(Setting{ID: SettingEnablePush, Val: 0})
		synctest.Wait()
		cli.SetReadBufferSize(1 << 30) // read again
		acks := 0
		for {
			f := st.readFrame()
			if f == nil {
				break
			}
			if sf, ok := f.(*SettingsFrame); ok && sf.IsAck() {
				acks++
			}
		}
		if acks != 2 {
			t.Errorf("client sent 2 SETTINGS frames, server sent %d SETTINGS ack(s)", acks)
		}
	})
}
