// Stand-alone reproduction (plain Go test, no vx) of
//
//	C46/copy/source-destroyed/equivalent-destination-spelling
//
// Overlay into the package directory /repo/webdav (package webdav), e.g.
//
//	cp C46_copy_equivalent_destination_test.go <scratch>/webdav/zz_c46_copy_test.go
//	cd <scratch> && /verif/tools/go.sh test -vet=off -run TestC46CopyOntoEquivalentSpelling ./webdav/
//
// Handler.handleCopyMove rejects "destination equals source" with a string
// comparison of the two (prefix-stripped) URL paths. A Destination that names
// the source with a different spelling ("/a/", "/a/.", "/a//", "/b/../a",
// "/a%2F", the relative reference "a", or request target "/a/" with
// Destination "/a") passes it. copyFiles then applies the Overwrite rule to
// the destination — fs.RemoveAll(dst) — which is the source, recreates an
// empty collection and copies nothing: every member of the source collection
// is lost, although COPY must not modify its source (RFC 4918 §9.8).
//
// Suggested minimal fix (webdav.go, handleCopyMove): compare cleaned paths,
//
//	-	if dst == src {
//	+	if slashClean(dst) == slashClean(src) {
//			return http.StatusForbidden, errDestinationEqualsSource
//		}
package webdav

import (
	"context"
	"net/http/httptest"
	"os"
	"testing"
)

func TestC46CopyOntoEquivalentSpelling(t *testing.T) {
	for _, dest := range []string{"/a/", "/a/.", "/a//", "/b/../a", "/a%2F", "a"} {
		ctx := context.Background()
		fs := NewMemFS()
		if err := fs.Mkdir(ctx, "/a", 0777); err != nil {
			t.Fatal(err)
		}
		f, err := fs.OpenFile(ctx, "/a/f", os.O_RDWR|os.O_CREATE, 0666)
		if err != nil {
			t.Fatal(err)
		}
		f.Write([]byte("precious"))
		f.Close()

		h := &Handler{FileSystem: fs, LockSystem: NewMemLS()}
		req := httptest.NewRequest("COPY", "http://example.com/a", nil)
		req.Header.Set("Destination", dest)
		rec := httptest.NewRecorder()
		h.ServeHTTP(rec, req)

		if _, err := fs.Stat(ctx, "/a/f"); err != nil {
			t.Errorf("COPY /a with Destination %q (status %d): the source member /a/f is gone: %v", dest, rec.Code, err)
		}
	}
}
