// Stand-alone reproduction for C61 (signatures C61/range/data-behind-clock,
// C61/latest/data-behind-clock, C61/latest-buckets/data-behind-clock).
//
// Overlay into /repo/internal/timeseries (package timeseries), e.g.
//
//	cd /repo && go test -overlay <(echo '{"Replace":{"/repo/internal/timeseries/zz_c61_repro_test.go":"/verif/findings/C61_addwithtime_behind_clock_test.go"}}') -vet=off -run TestC61Repro ./internal/timeseries/
//
// Once a read (Latest / LatestBuckets, i.e. anything that advances the levels
// to the clock) has moved the newest level-0 bucket past the newest
// observation, the next AddWithTime whose time is newer than every earlier
// observation but older than that bucket takes the "t.After(ts.pendingTime)"
// branch: advance(t) is a no-op, pendingTime is set to levels[0].end (the
// clock-derived bucket end, not the bucket of t), and the observation is later
// merged at that instant. It is therefore reported in the newest bucket
// instead of the bucket of its own timestamp, although that bucket is well
// inside the retained window. Total() stays exact.
package timeseries

import (
	"testing"
	"time"
)

type c61ReproClock struct{ t time.Time }

func (c *c61ReproClock) Time() time.Time { return c.t }

func TestC61Repro(t *testing.T) {
	base := time.Unix(1_700_000_000, 0) // a whole second
	clk := &c61ReproClock{t: base.Add(30*time.Second + 500*time.Millisecond)}
	ts := NewTimeSeriesWithClock(NewFloat, clk)

	ts.Latest(0, 1) // a reader looks at the series at base+30.5 s: level 0 now ends at base+31 s

	one := Float(1)
	ts.AddWithTime(&one, base.Add(10*time.Second+500*time.Millisecond)) // event time 20 s behind the clock

	in := ts.Range(base.Add(10*time.Second), base.Add(11*time.Second)).(*Float).Value()
	newest := ts.Range(base.Add(30*time.Second), base.Add(31*time.Second)).(*Float).Value()
	latest := ts.Latest(0, 1).(*Float).Value()
	total := ts.Total().(*Float).Value()
	t.Logf("Range[base+10s, base+11s) = %v (want 1), Range[base+30s, base+31s) = %v (want 0), Latest(0,1) = %v (want 0), Total = %v", in, newest, latest, total)
	if in != 1 || newest != 0 || latest != 0 {
		t.Errorf("observation at base+10.5 s is filed under the clock-derived bucket (base+30 s, base+31 s], not under its own second")
	}
}
