// Overlay into package directory dns/dnsmessage (package dnsmessage).
//
// C36 finding (unchanged tree): Message.Pack / the compressing Builder emit
// compression-pointer chains of any length, but Name.unpack refuses to follow
// more than 10 pointers ("too many pointers (>10)"). A well-formed message of
// 12 names that each extend the previous one by one leading label
// (l0., l1.l0., ..., l11. ... .l0.; the longest is 39 bytes) is packed so
// that the last name is reached through 11 pointers, and Unpack(Pack(m))
// fails, while the uncompressed Builder output of the same message unpacks
// fine. 11 such names (10 pointers) round-trip.
// Signature: C36/pack/unpack-error/chain-of-11-pointers (and -12-).
// Possible fixes: let Name.pack stop chaining (emit the suffix in full or
// point only at suffixes whose own chain is < 10 deep), or make the decoder's
// loop guard independent of legitimate backwards-only chains.
package dnsmessage

import "testing"

func TestC36FindingPackPointerChain(t *testing.T) {
	for _, k := range []int{11, 12} {
		m := Message{Header: Header{Response: true}}
		s := ""
		for i := 0; i < k; i++ {
			s = "l" + string(rune('a'+i)) + "." + s
			m.Questions = append(m.Questions, Question{Name: MustNewName(s), Type: TypeA, Class: ClassINET})
		}
		buf, err := m.Pack()
		if err != nil {
			t.Fatalf("k=%d Pack: %v", k, err)
		}
		var got Message
		if err := got.Unpack(buf); err != nil {
			t.Errorf("k=%d names (%d chained pointers): Unpack(Pack(m)): %v", k, k-1, err)
		}
	}
}
