// Stand-alone reproduction for finding C27/3x-exceeded. Overlay this file
// into /repo/quic (package quic), e.g.
//
//	go test -overlay <(echo '{"Replace":{"/repo/quic/zz_c27_pad_test.go":"/verif/findings/C27_initial_padding_exceeds_amplification_limit_test.go"}}') \
//	    -vet=off -run TestC27InitialPaddingExceedsAmplificationLimit ./quic/
//
// A server whose remaining anti-amplification budget is between
// minPacketSize (128) and 1200 bytes builds a datagram of at most that many
// bytes (packetWriter is reset to loss.maxSendSize()), but when the datagram
// carries an ack-eliciting Initial packet Conn.maybeSend then pads the
// datagram to 1200 bytes regardless of the limit; lossState.packetSent hides
// the overshoot with max(0, limit-size). The server has then sent more than
// three times the bytes it received from an address it has not validated
// (RFC 9000 section 8.1: MUST NOT).
//
// Found by /verif/check C27: certificate chain of 10, drop the first and the
// fifth datagram of the handshake -> 7392 bytes sent for 2400 received.
// Here: one 1200-byte Initial and one 100-byte datagram are received
// (budget 3900); the server sends 3 x 1200 and then, on its next PTO, a
// fourth 1200-byte datagram.
package quic

import (
	"crypto/tls"
	"testing"
	"testing/synctest"
	"time"
)

func TestC27InitialPaddingExceedsAmplificationLimit(t *testing.T) {
	synctest.Test(t, func(t *testing.T) {
		tc := newTestConn(t, serverSide)
		received, sent := 0, 0
		drain := func(when string) {
			t.Helper()
			for {
				b := tc.endpoint.read()
				if b == nil {
					return
				}
				sent += len(b)
				t.Logf("%s: server sent a %d-byte datagram; total sent %d, received %d (3x = %d)", when, len(b), sent, received, 3*received)
				if sent > 3*received {
					t.Fatalf("server sent %d bytes to an unvalidated address from which it received %d bytes (limit %d)", sent, received, 3*received)
				}
			}
		}

		// Client Initial, 1200-byte datagram: budget 3600.
		tc.writeFrames(packetTypeInitial, debugFrameCrypto{
			data: tc.cryptoDataIn[tls.QUICEncryptionLevelInitial],
		})
		received += 1200
		drain("first flight")

		// The client stays silent; the server's PTO probes use up the budget.
		time.Sleep(5 * time.Second)
		drain("PTO probes")
		if sent != 3600 {
			t.Fatalf("expected the server to have used its whole budget (3600), sent %d", sent)
		}

		// A 100-byte datagram for this connection arrives (its content does
		// not matter: datagrams, not packets, are counted): budget +300.
		junk := make([]byte, 100)
		junk[0] = 0x40 // short header
		copy(junk[1:], testLocalConnID(0))
		tc.endpoint.write(&datagram{b: junk, peerAddr: tc.conn.peerAddr})
		received += len(junk)

		time.Sleep(4 * time.Second) // next PTO (still before the handshake timeout)
		drain("after the short datagram")
	})
}
