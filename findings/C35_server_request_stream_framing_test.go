// Stand-alone reproductions for the C35 findings on the HTTP/3 server's
// request-stream framing (plain Go tests, no vx).
//
// Overlay into /repo/internal/http3 (package http3), e.g.
//
//	echo '{"Replace":{"/repo/internal/http3/zz_c35_findings_test.go":"/verif/findings/C35_server_request_stream_framing_test.go"}}' > /tmp/ov.json
//	cd /repo && /verif/tools/go.sh test -overlay /tmp/ov.json -vet=off -run 'TestC35Finding' -v ./internal/http3/
//
// Each test FAILS on the pinned tree and describes the expected behaviour.
package http3

import (
	"errors"
	"io"
	"net/http"
	"testing"
	"testing/synctest"

	"golang.org/x/net/quic"
)

// A request stream whose only frame is a HEADERS frame cut short by FIN (the
// frame header announces 11 payload bytes, 5 arrive). RFC 9114 §7.1: "if the
// last frame on the stream was truncated, this MUST be treated as a connection
// error of type H3_FRAME_ERROR". The server instead resets the stream with
// H3_INTERNAL_ERROR (0x102): parseHeader returns the bare http3Error produced
// by qpackDecoder.decode / stream.ReadByte, which genericConn.handleStreamError
// maps to its default case.
func TestC35FindingTruncatedHeadersReportedAsInternalError(t *testing.T) {
	synctest.Test(t, func(t *testing.T) {
		ts := newTestServer(t, http.HandlerFunc(func(w http.ResponseWriter, r *http.Request) {}))
		tc := ts.connect()
		tc.greet()
		st := tc.newStream(streamTypeRequest)
		section := []byte{0x00, 0x00, 0xd4, 0xd7, 0x51, 0x02, '/', 'c', 0x50, 0x01, 'h'} // POST https /c authority h
		st.writeVarint(int64(frameTypeHeaders))
		st.writeVarint(int64(len(section)))
		st.Write(section[:5])
		st.Flush()
		st.stream.stream.CloseWrite()
		synctest.Wait()

		_, err := io.ReadAll(st.stream.stream)
		var code quic.StreamErrorCode
		streamFrameError := errors.As(err, &code) && uint64(code) == uint64(errH3FrameError)
		cerr := tc.qconn.Wait(canceledCtx)
		var ae *quic.ApplicationError
		connFrameError := errors.As(cerr, &ae) && ae.Code == uint64(errH3FrameError)
		if !streamFrameError && !connFrameError {
			t.Errorf("truncated HEADERS frame: response stream ended with %v, connection state %v; want an H3_FRAME_ERROR (0x106) stream reset or connection close", err, cerr)
		}
	})
}

// An unknown (reserved, "GREASE") frame type in front of the request HEADERS
// frame. RFC 9114 §7.2.8 / §9: frames of unknown types MUST be ignored. The
// server rejects the request with H3_MESSAGE_ERROR ("received other frames when
// expecting HEADERS") and never calls the handler.
func TestC35FindingUnknownFrameBeforeHeadersNotSkipped(t *testing.T) {
	synctest.Test(t, func(t *testing.T) {
		called := false
		ts := newTestServer(t, http.HandlerFunc(func(w http.ResponseWriter, r *http.Request) { called = true }))
		tc := ts.connect()
		tc.greet()
		st := tc.newStream(streamTypeRequest)
		st.writeVarint(0x21) // reserved frame type 0x1f*0+0x21
		st.writeVarint(2)
		st.Write([]byte{0xe1, 0xe2})
		section := []byte{0x00, 0x00, 0xd4, 0xd7, 0x51, 0x02, '/', 'c', 0x50, 0x01, 'h'}
		st.writeVarint(int64(frameTypeHeaders))
		st.writeVarint(int64(len(section)))
		st.Write(section)
		st.Flush()
		st.stream.stream.CloseWrite()
		synctest.Wait()
		_, err := io.ReadAll(st.stream.stream)
		if !called {
			t.Errorf("handler not called for [unknown frame, HEADERS]; response stream: %v", err)
		}
	})
}
