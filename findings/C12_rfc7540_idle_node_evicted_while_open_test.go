// Stand-alone reproduction of a C12 finding (plain Go test, no vx).
// Overlay / copy into the package directory http2/ of golang.org/x/net
// (package http2, white-box) and run:  go test -run TestFindingC12 ./http2/
//
// Finding C12/rfc7540/open-stream-missing-from-priority-tree
//
// RFC 7540 priority write scheduler with idle-node retention (default
// MaxIdleNodesInTree = 10): AdjustStream on a not-yet-opened id creates an
// idle node and appends it to ws.idleNodes. OpenStream on that id only flips
// the node's state to open; the node STAYS in ws.idleNodes. When later
// AdjustStream calls on other idle ids overflow the idle list, the oldest
// entry - the now OPEN stream - is removed from the tree and from ws.nodes.
// From then on, for a stream that is open under the WriteScheduler contract:
//   - frames already queued on it are never popped (Pop reports nothing),
//   - Push of a DATA frame panics ("add DATA on non-open stream"),
//   - Push of HEADERS is routed to the root (control) queue,
//   - CloseStream panics ("unknown stream").
// All of these histories respect the documented contract ("AdjustStream ...
// may be called on a stream that has not yet been opened").
// In the server: PRIORITY(1) while idle, HEADERS(1), then PRIORITY frames for
// MaxIdleNodesInTree further idle ids.
//
// Suggested minimal fix (writesched_priority_rfc7540.go, OpenStream, in the
// `curr != nil` branch): drop the node from the idle list when it is opened.
//
//	curr.state = priorityNodeOpenRFC7540
//	for i, n := range ws.idleNodes {
//		if n == curr {
//			ws.idleNodes = append(ws.idleNodes[:i], ws.idleNodes[i+1:]...)
//			break
//		}
//	}
//	return

//go:build !(go1.27 && !http2legacy)

package http2

import "testing"

func TestFindingC12_RFC7540_IdleNodeEvictedWhileOpen(t *testing.T) {
	ws := NewPriorityWriteScheduler(nil) // defaults: MaxIdleNodesInTree = 10
	sc := &serverConn{maxFrameSize: 16}
	st := &stream{id: 1, sc: sc}
	st.flow.add(1 << 20)

	ws.AdjustStream(1, PriorityParam{StreamDep: 0, Weight: 15}) // PRIORITY on idle stream 1
	ws.OpenStream(1, OpenStreamOptions{})                        // stream 1 opens
	hdr := &writeResHeaders{streamID: 1, httpResCode: 200}
	ws.Push(FrameWriteRequest{write: hdr, stream: st})
	for id := uint32(3); id <= 21; id += 2 { // ten more PRIORITY frames on idle ids
		ws.AdjustStream(id, PriorityParam{StreamDep: 0, Weight: 15})
	}

	if wr, ok := ws.Pop(); !ok || wr.write != writeFramer(hdr) {
		t.Errorf("Pop() = %v, %v; the HEADERS frame queued on open stream 1 is lost", wr, ok)
	}
	func() {
		defer func() {
			if r := recover(); r != nil {
				t.Errorf("Push(DATA) on open stream 1 panicked: %v", r)
			}
		}()
		ws.Push(FrameWriteRequest{write: &writeData{streamID: 1, p: make([]byte, 8)}, stream: st})
	}()
	func() {
		defer func() {
			if r := recover(); r != nil {
				t.Errorf("CloseStream(1) on open stream 1 panicked: %v", r)
			}
		}()
		ws.CloseStream(1)
	}()
}
