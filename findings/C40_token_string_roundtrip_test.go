// Stand-alone reproductions for the C40(b) findings on the unchanged tree:
// Token.String() of a comment / doctype token does not always tokenize back to
// an equal token.
// Overlay into the package directory /repo/html (package html), e.g.
//   echo '{"Replace":{"/repo/html/zz_c40_repro_test.go":"/verif/findings/C40_token_string_roundtrip_test.go"}}' > /tmp/ov.json
//   cd /repo && /verif/tools/go.sh test -overlay /tmp/ov.json -vet=off -run TestC40 -v ./html/
//
// 1 C40/token-string/Comment-retokenizes-differently/data-with-CR
//   The tokenizer unescapes character references inside comments, so
//   "<!--&#13;-->" yields Comment{Data:"\r"}. Token.String uses
//   escapeCommentString, which (unlike EscapeString) does not escape CR, so the
//   string is "<!--\r-->" and the tokenizer's newline conversion turns the
//   data into "\n".
// 2 C40/token-string/Doctype-retokenizes-differently/data-with-leading-space
//   "<!DOCTYPE &#32;x>" yields Doctype{Data:" x"}; Token.String writes
//   "<!DOCTYPE  x>", and readDoctype skips all white space after the keyword,
//   so the data comes back as "x".
package html

import (
	"strings"
	"testing"
)

func TestC40TokenStringRoundTrip(t *testing.T) {
	for _, in := range []string{"<!--&#13;-->", "<!DOCTYPE &#32;x>", "<!DOCTYPE &#10;>"} {
		z := NewTokenizer(strings.NewReader(in))
		z.Next()
		tok := z.Token()
		z2 := NewTokenizer(strings.NewReader(tok.String()))
		z2.Next()
		tok2 := z2.Token()
		if tok.Type != tok2.Type || tok.Data != tok2.Data {
			t.Errorf("input %q: token %v %q has String() %q which tokenizes to %v %q", in, tok.Type, tok.Data, tok.String(), tok2.Type, tok2.Data)
		}
	}
}
