//go:build !(go1.27 && !http2legacy)

// Stand-alone reproduction of the C15 finding
//   C15/stream-state/headers-after-own-RST_STREAM/client-reused-stream-id
//
// Overlay into /repo/http2 (package http2_test), e.g.
//   echo '{"Replace":{"/repo/http2/zz_c15_repro_test.go":"/verif/findings/C15_stream_id_reuse_after_malformed_test.go"}}' > /tmp/scratch/ov.json
//   cd /repo && /verif/tools/go.sh test -overlay /tmp/scratch/ov.json -vet=off -run TestC15StreamIDReuseAfterMalformed ./http2/
//
// A request whose header block is rejected by the framing layer (here an
// upper-case field name) is answered with RST_STREAM(PROTOCOL_ERROR), but the
// server does not record the stream id (serverConn.maxClientStreamID is only
// advanced in processHeaders, which never sees the frame). A second HEADERS
// frame on the same id is therefore treated as a brand-new stream and served:
// the server sends HEADERS on a stream for which it has already sent
// RST_STREAM. RFC 9113 §5.1.1 requires a connection error PROTOCOL_ERROR for a
// stream id that is not greater than every id the client has opened. (For the
// same reason a client RST_STREAM for the rejected stream is answered with
// GOAWAY(PROTOCOL_ERROR) "reset_idle_stream".)
package http2_test

import (
	"net/http"
	"testing"

	. "golang.org/x/net/http2"
)

func TestC15StreamIDReuseAfterMalformed(t *testing.T) {
	synctestTest(t, func(t testing.TB) {
		served := 0
		st := newServerTester(t, func(w http.ResponseWriter, r *http.Request) {
			served++
			w.WriteHeader(204)
		})
		st.greet()
		// malformed request on stream 1: upper-case header field name
		st.writeHeaders(HeadersFrameParam{
			StreamID:      1,
			BlockFragment: st.encodeHeaderRaw(":method", "GET", ":scheme", "https", ":authority", "h", ":path", "/", "X-Upper", "v"),
			EndStream:     true,
			EndHeaders:    true,
		})
		st.wantRSTStream(1, ErrCodeProtocol)
		// the client re-uses stream id 1
		st.writeHeaders(HeadersFrameParam{
			StreamID:      1,
			BlockFragment: st.encodeHeader(),
			EndStream:     true,
			EndHeaders:    true,
		})
		st.sync()
		f := st.readFrame()
		switch f := f.(type) {
		case *GoAwayFrame:
			t.Logf("ok: connection error %v", f.ErrCode)
		case *HeadersFrame:
			t.Errorf("server sent HEADERS on stream %d after it had sent RST_STREAM for it (handler ran %d time(s)); want GOAWAY(PROTOCOL_ERROR)", f.StreamID, served)
		default:
			t.Errorf("unexpected frame %v", f)
		}
	})
}
