// Stand-alone reproduction (plain Go test, no vx) of the C44 findings
//
//	C44/Rename/same-missing/impl=ok,ref=err
//	C44/Rename/same-root/must-fail
//
// Overlay into package directory webdav (package webdav; exported API only):
//
//	echo '{"Replace":{"/repo/webdav/zz_c44_finding3_test.go":"/verif/findings/C44_rename_same_name_test.go"}}' > /verif/.work/c44_f3.json
//	cd /repo && /verif/tools/go.sh test -overlay /verif/.work/c44_f3.json -vet=off -run TestC44Finding -v ./webdav/
//
// memFS.Rename starts with
//
//	if oldName == newName { return nil }
//
// before anything is looked up. Consequently (one root cause, two symptoms)
//   - Rename("/n", "/n") of a name that does not exist reports success, where
//     os.Rename fails with ENOENT (also for "/missing/x" -> "/missing/x" and
//     for different spellings of one name such as "/a/../n" -> "/n");
//   - Rename("/", "/") reports success although the code's own comments (and
//     Dir.Rename, and the property) say renaming from or to the root is refused.
//
// Through the Handler, MOVE with Destination == source is rejected earlier
// (403), so the impact is on direct users of the FileSystem.
//
// Minimal fix (package tests stay green, checked in a scratch tree): delete
// the early return and put it after the source has been found, i.e. after
//
//	oNode, ok := oDir.children[oFrag]
//	if !ok {
//		return os.ErrNotExist
//	}
//	if oldName == newName {
//		return nil
//	}
//
// (the `oDir == nil` root check then also runs first).
package webdav

import (
	"context"
	"testing"
)

func TestC44Finding_RenameSameName(t *testing.T) {
	ctx := context.Background()
	ref := Dir(t.TempDir())
	impl := NewMemFS()
	for _, c := range [][2]string{{"/n", "/n"}, {"/a/../n", "/n"}, {"/missing/x", "/missing/x"}, {"/", "/"}} {
		re := ref.Rename(ctx, c[0], c[1])
		ie := impl.Rename(ctx, c[0], c[1])
		t.Logf("Rename(%q, %q) on an empty tree: Dir (os.Rename) = %v, memFS = %v", c[0], c[1], re, ie)
		if (re == nil) != (ie == nil) {
			t.Errorf("Rename(%q, %q): memFS and the os package disagree: os %v, memFS %v", c[0], c[1], re, ie)
		}
	}
}
