//go:build !(go1.27 && !http2legacy)

// Stand-alone reproduction of a finding of check C10 (server part).
// Overlay into /repo/http2 (package http2_test), e.g.
//
//	echo '{"Replace":{"/repo/http2/zz_c10_srv_repro_test.go":"/verif/findings/C10_server_double_refund_after_reset_test.go"}}' > /tmp/ov.json
//	cd /repo && go test -overlay /tmp/ov.json -vet=off -run TestFindingC10ServerDoubleRefund ./http2/
//
// Finding (signatures C10/srv/conn-credit/over-credit/after-R-after-reset and
// C10/srv/window-update/conn-window-above-configured/after-R-after-reset):
//
// serverConn.closeStream returns the unread, still buffered request-body bytes
// to the connection-level receive window (sc.sendWindowUpdate(nil, p.Len()),
// golang.org/issue/16481) and then calls p.CloseWithError, which leaves those
// bytes readable. When the handler afterwards reads them, requestBody.Read ->
// noteBodyReadFromHandler -> noteBodyRead returns the same bytes to the
// connection window a second time. The client's view of the connection
// receive window ends above the configured MaxUploadBufferPerConnection and
// grows by the buffered amount with every such stream; after 2 GiB of
// accumulated over-credit inflow.add panics ("flow control update exceeds
// maximum window size") on the serve goroutine.
//
// Minimal event sequence found by the enumeration:
//	HEADERS(1, POST)  DATA(1, n)  RST_STREAM(1)  handler: Body.Read
//
// Suggested minimal fix: the bytes credited by closeStream must not be
// credited again by later reads, e.g. let closeStream remember the amount it
// returned (st.body "pre-refunded" counter decremented by requestBody.Read
// before it reports n to noteBodyReadFromHandler; the counter has to live in
// the pipe and be updated under its mutex, a serve-loop-only counter would
// swallow the bodyReadMsg of a Read that completed just before the close).
// Simply discarding the buffered data in closeStream (p.BreakWithError after
// p.CloseWithError) removes the double refund but changes what handlers see
// and breaks TestServer_Request_Post_Body_ContentLength_TooSmall (tried in a
// scratch tree), so no small fix is proposed.

package http2_test

import (
	"io"
	"net/http"
	"testing"

	. "golang.org/x/net/http2"
)

func TestFindingC10ServerDoubleRefundAfterReset(t *testing.T) {
	synctestTest(t, func(t testing.TB) {
		st := newServerTester(t, nil)
		defer st.Close()
		st.greet()
		st.writeHeaders(HeadersFrameParam{
			StreamID:      1,
			BlockFragment: st.encodeHeader(":method", "POST"),
			EndStream:     false,
			EndHeaders:    true,
		})
		call := st.nextHandlerCall()

		// More than inflowMinRefresh, so that every refund is visible as a
		// WINDOW_UPDATE frame.
		const n = 5000
		st.writeData(1, false, make([]byte, n))
		st.writeRSTStream(1, ErrCodeCancel)
		st.sync()

		// closeStream returned the n buffered bytes.
		st.wantWindowUpdate(0, n)
		if got := st.sc.TestFlowControlConsumed(); got != 0 {
			t.Fatalf("after RST_STREAM: consumed connection flow control = %d, want 0", got)
		}

		// The buffered bytes are still readable by the handler.
		call.do(func(w http.ResponseWriter, req *http.Request) {
			got, _ := io.ReadFull(req.Body, make([]byte, n))
			if got != n {
				t.Errorf("handler read %d buffered bytes after the reset, expected %d", got, n)
			}
		})
		st.sync()

		if f := st.readFrame(); f != nil {
			t.Errorf("the server sent a second refund for the same %d bytes: %v", n, SummarizeFrame(f))
		}
		if got := st.sc.TestFlowControlConsumed(); got != 0 {
			t.Errorf("consumed connection flow control = %d, want 0: %d bytes were returned to the client twice (receive window above MaxUploadBufferPerConnection)", got, -got)
		}
	})
}
