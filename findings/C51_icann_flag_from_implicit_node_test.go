// Stand-alone reproduction of the C51 violations found on the unchanged tree.
// Overlay (or copy) this file into /repo/publicsuffix/ (package publicsuffix):
//
//	go test -run 'TestC51Finding' ./publicsuffix/
//
// Both sub-tests FAIL on the pinned tree; their names are the check signatures.
//
// Property C51: PublicSuffix returns the suffix selected by the PSL algorithm
// "with the ICANN flag of the prevailing rule".
//
// Cause: PublicSuffix walks the packed label tree from the TLD down and does
// `if !wildcard { icann = icannNode }` for *every* node it steps on, including
// nodes that exist only because a longer rule passes through them
// (nodeTypeParentOnly, created by gen.go with icann = true). Such a node does
// not change `suffix`, but it overwrites the flag of the rule that does
// prevail.
//
//  1. "us-east-1.amazonaws.com" is a PRIVATE rule; "dualstack.us-east-1.amazonaws.com"
//     is not a rule, it is only an interior point of "s3.dualstack.us-east-1.amazonaws.com".
//     PublicSuffix("dualstack.us-east-1.amazonaws.com") = ("us-east-1.amazonaws.com", true):
//     a private suffix reported as ICANN-managed. Same for every name below a
//     private rule whose next label is an interior point (278 such names are
//     hit by the quick tier).
//  2. "za" is not a rule (only "co.za", "ac.za", ... are). No rule matches "za"
//     or "x.za", so the prevailing rule is the default "*", for which the
//     package documents icann == false ("unmanaged top level domain ... not
//     explicitly mentioned in the list"). PublicSuffix returns ("za", true).
//
// Suggested minimal fix (tried in a scratch worktree, see the report): take the
// flag only from a node that carries a rule, i.e. in list.go
//
//	case nodeTypeNormal:
//		suffix = 1 + dot
//		icann = icannNode            // added
//	...
//	wildcard = u&(1<<childrenBitsWildcard-1) != 0
//	// removed: if !wildcard { icann = icannNode }
package publicsuffix

import "testing"

func TestC51Finding(t *testing.T) {
	t.Run("C51/icann/normal/via-implicit-node", func(t *testing.T) {
		// sanity: the premises about the rule list
		idx := -1
		for i, r := range rules {
			if r == "dualstack.us-east-1.amazonaws.com" {
				t.Skip("rule list changed: the interior point became a rule")
			}
			if r == "us-east-1.amazonaws.com" {
				idx = i
			}
		}
		if idx < numICANNRules {
			t.Skip("rule list changed: us-east-1.amazonaws.com is not a private rule")
		}
		for _, d := range []string{"dualstack.us-east-1.amazonaws.com", "x.dualstack.us-east-1.amazonaws.com"} {
			ps, icann := PublicSuffix(d)
			if ps != "us-east-1.amazonaws.com" || icann {
				t.Errorf("PublicSuffix(%q) = (%q, icann=%v), want (\"us-east-1.amazonaws.com\", false): the prevailing rule is private", d, ps, icann)
			}
		}
		// the same suffix one label to the side is reported correctly
		if ps, icann := PublicSuffix("x.us-east-1.amazonaws.com"); ps != "us-east-1.amazonaws.com" || icann {
			t.Errorf("PublicSuffix(x.us-east-1.amazonaws.com) = (%q, %v)", ps, icann)
		}
	})
	t.Run("C51/icann/default-rule/via-implicit-node", func(t *testing.T) {
		for _, r := range rules {
			if r == "za" || r == "*.za" {
				t.Skip("rule list changed: za is a rule")
			}
		}
		for _, d := range []string{"za", "x.za"} {
			ps, icann := PublicSuffix(d)
			if ps != "za" || icann {
				t.Errorf("PublicSuffix(%q) = (%q, icann=%v), want (\"za\", false): no rule matches, the default rule \"*\" prevails", d, ps, icann)
			}
		}
	})
}
