// Stand-alone reproductions for the C35 findings on HTTP/3 request / response
// stream framing (plain Go tests, no vx).
//
// Overlay into /repo/internal/http3 (package http3), e.g.
//
//	echo '{"Replace":{"/repo/internal/http3/zz_c35_findings_test.go":"/verif/findings/C35_stream_framing_test.go"}}' > /tmp/ov.json
//	cd /repo && /verif/tools/go.sh test -overlay /tmp/ov.json -vet=off -run 'TestC35Finding' -v ./internal/http3/
//
// Each test FAILED on the pinned tree and describes the expected behaviour.
// TestC35FindingUnknownFrameBeforeHeadersNotSkipped (root cause A) passes since
// /repo commit 5ee1338; the other three (root cause B, see C35_fix_B.diff) are
// listed in known_findings.txt and still fail.
package http3

import (
	"errors"
	"io"
	"net/http"
	"testing"
	"testing/synctest"

	"golang.org/x/net/quic"
)

// A request stream whose only frame is a HEADERS frame cut short by FIN (the
// frame header announces 11 payload bytes, 5 arrive). RFC 9114 §7.1: "if the
// last frame on the stream was truncated, this MUST be treated as a connection
// error of type H3_FRAME_ERROR". The server instead resets the stream with
// H3_INTERNAL_ERROR (0x102): parseHeader returns the bare http3Error produced
// by qpackDecoder.decode / stream.ReadByte, which genericConn.handleStreamError
// maps to its default case.
func TestC35FindingTruncatedHeadersReportedAsInternalError(t *testing.T) {
	synctest.Test(t, func(t *testing.T) {
		ts := newTestServer(t, http.HandlerFunc(func(w http.ResponseWriter, r *http.Request) {}))
		tc := ts.connect()
		tc.greet()
		st := tc.newStream(streamTypeRequest)
		section := []byte{0x00, 0x00, 0xd4, 0xd7, 0x51, 0x02, '/', 'c', 0x50, 0x01, 'h'} // POST https /c authority h
		st.writeVarint(int64(frameTypeHeaders))
		st.writeVarint(int64(len(section)))
		st.Write(section[:5])
		st.Flush()
		st.stream.stream.CloseWrite()
		synctest.Wait()

		_, err := io.ReadAll(st.stream.stream)
		var code quic.StreamErrorCode
		streamFrameError := errors.As(err, &code) && uint64(code) == uint64(errH3FrameError)
		cerr := tc.qconn.Wait(canceledCtx)
		var ae *quic.ApplicationError
		connFrameError := errors.As(cerr, &ae) && ae.Code == uint64(errH3FrameError)
		if !streamFrameError && !connFrameError {
			t.Errorf("truncated HEADERS frame: response stream ended with %v, connection state %v; want an H3_FRAME_ERROR (0x106) stream reset or connection close", err, cerr)
		}
	})
}

// An unknown (reserved, "GREASE") frame type in front of the request HEADERS
// frame. RFC 9114 §7.2.8 / §9: frames of unknown types MUST be ignored. The
// server rejects the request with H3_MESSAGE_ERROR ("received other frames when
// expecting HEADERS") and never calls the handler.
func TestC35FindingUnknownFrameBeforeHeadersNotSkipped(t *testing.T) {
	synctest.Test(t, func(t *testing.T) {
		called := false
		ts := newTestServer(t, http.HandlerFunc(func(w http.ResponseWriter, r *http.Request) { called = true }))
		tc := ts.connect()
		tc.greet()
		st := tc.newStream(streamTypeRequest)
		st.writeVarint(0x21) // reserved frame type 0x1f*0+0x21
		st.writeVarint(2)
		st.Write([]byte{0xe1, 0xe2})
		section := []byte{0x00, 0x00, 0xd4, 0xd7, 0x51, 0x02, '/', 'c', 0x50, 0x01, 'h'}
		st.writeVarint(int64(frameTypeHeaders))
		st.writeVarint(int64(len(section)))
		st.Write(section)
		st.Flush()
		st.stream.stream.CloseWrite()
		synctest.Wait()
		_, err := io.ReadAll(st.stream.stream)
		if !called {
			t.Errorf("handler not called for [unknown frame, HEADERS]; response stream: %v", err)
		}
	})
}

// A trailer HEADERS frame cut short by FIN, read through the request body.
// The handler's Body.Read fails with QPACK_DECOMPRESSION_FAILED (or, for other
// cut points, the bare H3_FRAME_ERROR is only produced by accident of where the
// cut falls): qpackDecoder.decode maps the short read to a QPACK error. RFC
// 9114 §7.1 requires H3_FRAME_ERROR for a truncated last frame.
func TestC35FindingTruncatedTrailersReportedAsQPACKError(t *testing.T) {
	synctest.Test(t, func(t *testing.T) {
		var readErr error
		ts := newTestServer(t, http.HandlerFunc(func(w http.ResponseWriter, r *http.Request) {
			_, readErr = io.ReadAll(r.Body)
		}))
		tc := ts.connect()
		tc.greet()
		st := tc.newStream(streamTypeRequest)
		section := []byte{0x00, 0x00, 0xd4, 0xd7, 0x51, 0x02, '/', 'c', 0x50, 0x01, 'h'}
		st.writeVarint(int64(frameTypeHeaders))
		st.writeVarint(int64(len(section)))
		st.Write(section)
		trailer := []byte{0x00, 0x00, 0x23, 'x', '-', 't', 0x01, 'v'}
		st.writeVarint(int64(frameTypeHeaders))
		st.writeVarint(int64(len(trailer)))
		st.Write(trailer[:5]) // cut inside the literal name
		st.Flush()
		st.stream.stream.CloseWrite()
		synctest.Wait()
		if !errors.Is(readErr, errH3FrameError) {
			t.Errorf("request body with a truncated trailer HEADERS frame: Read error = %v; want H3_FRAME_ERROR", readErr)
		}
	})
}

// The client: a response HEADERS frame that announces 3 payload bytes of which
// 2 arrive before FIN. clientConn.handleHeaders reports H3_MESSAGE_ERROR (a
// stream error) because stream.ReadByte charges the missing byte against the
// frame limit before it notices the end of the stream, so the following
// endFrame check passes. Other cut points do give H3_FRAME_ERROR.
func TestC35FindingClientTruncatedResponseHeadersReportedAsMessageError(t *testing.T) {
	synctest.Test(t, func(t *testing.T) {
		tc := newTestClientConn(t)
		tc.greet()
		req, _ := http.NewRequest("GET", "https://example.tld/", nil)
		rt := tc.roundTrip(req)
		st := tc.wantStream(streamTypeRequest)
		st.writeVarint(int64(frameTypeHeaders))
		st.writeVarint(3)
		st.Write([]byte{0x00, 0x00}) // the :status line (0xd9) is missing
		st.Flush()
		st.stream.stream.CloseWrite()
		synctest.Wait()
		if err := rt.err(); !errors.Is(err, errH3FrameError) {
			t.Errorf("RoundTrip with a truncated response HEADERS frame: error = %v; want H3_FRAME_ERROR", err)
		}
	})
}
