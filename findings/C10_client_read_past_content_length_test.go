//go:build !(go1.27 && !http2legacy)

// Stand-alone reproduction of a finding of check C10 (client part).
// Overlay into /repo/http2 (package http2_test), e.g.
//
//	echo '{"Replace":{"/repo/http2/zz_c10_cli_repro1_test.go":"/verif/findings/C10_client_read_past_content_length_test.go"}}' > /tmp/ov.json
//	cd /repo && go test -overlay /tmp/ov.json -vet=off -run TestFindingC10ClientReadPastContentLength ./http2/
//
// Finding (signature C10/cli/conn-credit/leak/past-content-length):
//
// transportResponseBody.Read takes n bytes out of the response pipe and, when
// n exceeds the remaining declared Content-Length, returns early
// ("server replied with more than declared Content-Length; truncated") before
// reaching cc.inflow.add(n): none of the n bytes is ever returned to the
// connection-level receive window. cc.inflow.avail+unsent stays short by those
// bytes for the rest of the connection, i.e. the server's view of the
// connection window shrinks permanently with every such response.
//
// Minimal event sequence found by the enumeration:
//	request  HEADERS(1, content-length: 5)  DATA(1, 10 bytes)  Body.Read
// (also with the Read issued before the DATA arrives).
//
// Suggested minimal fix: credit the bytes taken from the pipe before the early
// return (the stream is aborted anyway, so connection level only), e.g. move
// the truncation check below the flow-control refund or add
//	cc.mu.Lock(); connAdd := cc.inflow.add(n); cc.mu.Unlock()
// and send the resulting WINDOW_UPDATE in the truncation branch, where n is
// the number of bytes bufPipe.Read returned.

package http2_test

import (
	"io"
	"net/http"
	"testing"
	"testing/synctest"

	. "golang.org/x/net/http2"
)

func TestFindingC10ClientReadPastContentLength(t *testing.T) {
	synctestTest(t, func(t testing.TB) {
		tc := newTestClientConn(t)
		tc.greet()
		req, _ := http.NewRequest("GET", "https://dummy.tld/", nil)
		rt := tc.roundTrip(req)
		tc.wantFrameType(FrameHeaders)

		before := tc.inflowWindow(0) // cc.inflow.avail + cc.inflow.unsent

		tc.writeHeaders(HeadersFrameParam{
			StreamID:   1,
			EndHeaders: true,
			EndStream:  false,
			BlockFragment: tc.makeHeaderBlockFragment(
				":status", "200",
				"content-length", "5",
			),
		})
		tc.writeData(1, false, make([]byte, 10)) // 10 bytes against content-length: 5
		synctest.Wait()

		res := rt.response()
		got, err := io.ReadAll(res.Body)
		if len(got) != 5 || err == nil {
			t.Fatalf("ReadAll = %d bytes, err %v; expected 5 bytes and the truncation error", len(got), err)
		}
		res.Body.Close()
		synctest.Wait()

		after := tc.inflowWindow(0)
		if after != before {
			t.Errorf("connection-level receive credit after the body was read and closed: avail+unsent = %d, before the response %d: %d bytes leaked", after, before, before-after)
		}
	})
}
