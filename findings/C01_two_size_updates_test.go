// Stand-alone reproduction of the C01 finding (fails on the pinned tree before
// commit 40304a8 "fix: http2/hpack: accept several dynamic table size updates at
// the start of a block"; passes after it)
//
//	C01/decode-error/two-size-updates-at-block-start
//
// Overlay this file into /repo/http2/hpack (it is `package hpack` only so that
// it sits next to the package's own tests; it uses the exported API only):
//
//	echo '{"Replace":{"/repo/http2/hpack/zz_c01_finding_test.go":"/verif/findings/C01_two_size_updates_test.go"}}' > /verif/.work/c01_finding_overlay.json
//	cd /repo && /verif/tools/go.sh test -overlay /verif/.work/c01_finding_overlay.json -vet=off -run TestC01Finding -v ./http2/hpack/
//
// What happens. The peer lowers SETTINGS_HEADER_TABLE_SIZE and raises it
// again before the next header block is sent (two SETTINGS frames, or 70 then
// 4096 in one frame): the application calls Encoder.SetMaxDynamicTableSize(70)
// and then SetMaxDynamicTableSize(4096). RFC 7541 §4.2 requires the encoder to
// signal the smallest size and then the final one, and the Encoder does so: the
// next block starts with two dynamic-table-size updates (3f 27 = 70,
// 3f e1 1f = 4096). The Decoder accepts the first, clears d.firstField in
// Write's loop, and — if an entry survived the first update, i.e.
// d.dynTab.size > 0 — rejects the second with
//
//	decoding error: dynamic table size update MUST occur at the beginning of a header block
//
// although both updates *are* at the beginning of the block ("Multiple updates
// to the maximum table size can occur between the transmission of two header
// blocks. In the case that this size is changed more than once in this
// interval, the smallest maximum table size that occurs in that interval MUST
// be signaled in a dynamic table size update. The final maximum size is always
// signaled, resulting in at most two dynamic table size updates.", §4.2).
// In http2 this is a COMPRESSION_ERROR connection error caused by a legal peer.
//
// Suggested minimal fix (http2/hpack/hpack.go, Decoder.Write): do not treat a
// size update as "the first field"; only a header field representation ends
// the beginning of the block. For example remember, in
// parseDynamicTableSizeUpdate, that the representation just parsed was a size
// update and skip `d.firstField = false` for it:
//
//	 	for len(d.buf) > 0 {
//	+		isSizeUpdate := d.buf[0]&0xe0 == 0x20
//	 		err = d.parseHeaderFieldRepr()
//	 		if err == errNeedMore { ... }
//	-		d.firstField = false
//	+		if !isSizeUpdate {
//	+			d.firstField = false
//	+		}
//
// (TestDynamicSizeUpdate in hpack_test.go still passes with this change: there
// the second update follows a header field.)
package hpack

import (
	"bytes"
	"testing"
)

func TestC01FindingTwoSizeUpdatesAtBlockStart(t *testing.T) {
	var buf bytes.Buffer
	enc := NewEncoder(&buf)
	var got []HeaderField
	dec := NewDecoder(4096, func(f HeaderField) { got = append(got, f) })

	// Block 1: puts one entry (size 34) into both dynamic tables.
	if err := enc.WriteField(HeaderField{Name: "k", Value: "v"}); err != nil {
		t.Fatal(err)
	}
	if _, err := dec.Write(buf.Bytes()); err != nil {
		t.Fatalf("block 1: %v", err)
	}
	if err := dec.Close(); err != nil {
		t.Fatalf("block 1 close: %v", err)
	}
	buf.Reset()
	got = nil

	// The peer's SETTINGS_HEADER_TABLE_SIZE goes 4096 -> 70 -> 4096 between two blocks.
	dec.SetAllowedMaxDynamicTableSize(70)
	enc.SetMaxDynamicTableSize(70)
	dec.SetAllowedMaxDynamicTableSize(4096)
	enc.SetMaxDynamicTableSize(4096)

	// Block 2.
	if err := enc.WriteField(HeaderField{Name: "k", Value: "w"}); err != nil {
		t.Fatal(err)
	}
	wire := append([]byte(nil), buf.Bytes()...)
	if want := []byte{0x3f, 0x27, 0x3f, 0xe1, 0x1f}; !bytes.HasPrefix(wire, want) {
		t.Fatalf("encoder output % x does not start with the two size updates % x", wire, want)
	}
	t.Logf("block 2 on the wire: % x (size update 70, size update 4096, literal k=w)", wire)
	if _, err := dec.Write(wire); err != nil {
		t.Fatalf("Decoder rejects the RFC 7541 §4.2 conforming block produced by the package's own Encoder: %v", err)
	}
	if err := dec.Close(); err != nil {
		t.Fatalf("block 2 close: %v", err)
	}
	if len(got) != 1 || got[0] != (HeaderField{Name: "k", Value: "w"}) {
		t.Fatalf("block 2 decoded to %v, want [k=w]", got)
	}
}
