//go:build !(go1.27 && !http2legacy)

// Stand-alone reproduction of a finding of check C10 (client part).
// Overlay into /repo/http2 (package http2_test), e.g.
//
//	echo '{"Replace":{"/repo/http2/zz_c10_cli_repro2_test.go":"/verif/findings/C10_client_unaccounted_data_test.go"}}' > /tmp/ov.json
//	cd /repo && go test -overlay /tmp/ov.json -vet=off -run TestFindingC10ClientUnaccountedData ./http2/
//
// Finding (signatures
// C10/cli/conn-window/advertised-differs-from-wire/receiver-did-not-account-data/after-D-before-HEADERS and
// .../after-D-after-END_STREAM):
//
// clientConnReadLoop.processData resets a still registered stream with
// PROTOCOL_ERROR when DATA arrives before the response HEADERS or after
// END_STREAM (cs.readClosed / !cs.pastHeaders branches) and returns without
// touching cc.inflow. The discarded frame is neither counted against nor
// returned to the connection-level window, although RFC 9113 §6.9 requires a
// receiver to account for every flow-controlled frame "even if the frame is
// in error" unless it treats it as a connection error. The server, which did
// debit its send window, never gets the bytes back: its view of the client's
// connection window stays short by the frame length for the rest of the
// connection. (For a stream that is no longer registered the same function
// does take and refund f.Length.)
//
// Minimal event sequences found by the enumeration:
//	request  DATA(1, n)                                  (before HEADERS)
//	POST with unfinished body  HEADERS(1)  DATA(1, END_STREAM)  DATA(1, n)
//
// Suggested minimal fix: in those two branches do what the cs == nil branch
// does (cc.inflow.take(f.Length) or connection FLOW_CONTROL_ERROR, then
// cc.inflow.add(f.Length) and send the WINDOW_UPDATE) before resetting the
// stream.

package http2_test

import (
	"io"
	"net/http"
	"testing"
	"testing/synctest"

	. "golang.org/x/net/http2"
)

// c10ReproConnRefund drains the client's frames and returns the sum of the
// connection-level WINDOW_UPDATE increments it sent.
func c10ReproConnRefund(tc *testClientConn) (refund uint32, sawRST bool) {
	for {
		f := tc.readFrame()
		if f == nil {
			return
		}
		switch f := f.(type) {
		case *WindowUpdateFrame:
			if f.StreamID == 0 {
				refund += f.Increment
			}
		case *RSTStreamFrame:
			sawRST = true
		}
	}
}

func TestFindingC10ClientUnaccountedData(t *testing.T) {
	const n = 5000 // >= inflowMinRefresh: a refund would be sent at once
	t.Run("before-HEADERS", func(t *testing.T) {
		synctestTest(t, func(t testing.TB) {
			tc := newTestClientConn(t)
			tc.greet()
			req, _ := http.NewRequest("GET", "https://dummy.tld/", nil)
			tc.roundTrip(req)
			tc.wantFrameType(FrameHeaders)

			tc.writeData(1, false, make([]byte, n)) // DATA before response HEADERS
			synctest.Wait()
			refund, sawRST := c10ReproConnRefund(tc)
			if !sawRST {
				t.Fatalf("expected the client to reset stream 1")
			}
			if refund != n {
				t.Errorf("the client discarded %d bytes of DATA but returned %d bytes of connection-level credit: the server's view of the connection window is %d bytes short for good", n, refund, n-int(refund))
			}
		})
	})
	t.Run("after-END_STREAM", func(t *testing.T) {
		synctestTest(t, func(t testing.TB) {
			tc := newTestClientConn(t)
			tc.greet()
			body := tc.newRequestBody() // stays open: the stream stays registered
			defer body.closeWithError(io.EOF)
			req, _ := http.NewRequest("POST", "https://dummy.tld/", body)
			tc.roundTrip(req)
			tc.wantFrameType(FrameHeaders)

			tc.writeHeaders(HeadersFrameParam{
				StreamID:      1,
				EndHeaders:    true,
				BlockFragment: tc.makeHeaderBlockFragment(":status", "200"),
			})
			tc.writeData(1, true, nil) // END_STREAM
			synctest.Wait()
			c10ReproConnRefund(tc)

			tc.writeData(1, false, make([]byte, n)) // DATA after END_STREAM
			synctest.Wait()
			refund, _ := c10ReproConnRefund(tc)
			if refund != n {
				t.Errorf("the client discarded %d bytes of DATA but returned %d bytes of connection-level credit: the server's view of the connection window is %d bytes short for good", n, refund, n-int(refund))
			}
		})
	})
}
