// Stand-alone reproduction of a C12 finding (plain Go test, no vx).
// Overlay / copy into the package directory http2/ of golang.org/x/net
// (package http2, white-box) and run:  go test -run TestFindingC12 ./http2/
//
// Finding C12/rfc7540/pop-empty-request/after-close-with-queued-frames
//
// RFC 7540 priority write scheduler with closed-node retention (the default
// configuration, MaxClosedNodesInTree > 0): closing a stream that still has
// queued frames and popping afterwards returns ok=true with an EMPTY
// FrameWriteRequest (write == nil), once per frame that was queued.
//
// Cause: CloseStream does
//
//	q := n.q
//	ws.queuePool.put(&q)
//
// i.e. it hands a *copy* of the node's writeQueue to the pool. put() zeroes the
// elements of the shared backing arrays and truncates the copy, but the
// retained closed node n keeps its own slice headers with the old lengths, so
// n.q.empty() stays false and walkReadyInOrder "delivers" the zeroed entries.
// In the server this reaches startFrameWrite with wr.write == nil. The pooled
// queue also aliases the closed node's backing arrays (the next stream that
// reuses the pooled queue writes into memory the closed node still reads).
//
// Suggested minimal fix (writesched_priority_rfc7540.go, CloseStream):
//
//	q := n.q
//	ws.queuePool.put(&q)
//	n.q = writeQueue{} // the closed node no longer owns the queue

//go:build !(go1.27 && !http2legacy)

package http2

import "testing"

func TestFindingC12_RFC7540_PopAfterCloseWithQueuedFrames(t *testing.T) {
	ws := NewPriorityWriteScheduler(nil)
	st := &stream{id: 1, sc: &serverConn{maxFrameSize: 16}}
	ws.OpenStream(1, OpenStreamOptions{})
	ws.Push(FrameWriteRequest{write: &writeResHeaders{streamID: 1, httpResCode: 200}, stream: st})
	ws.Push(FrameWriteRequest{write: &writeResHeaders{streamID: 1, httpResCode: 200}, stream: st})
	ws.CloseStream(1) // "Any frames queued on this stream should be discarded."
	for i := 0; i < 3; i++ {
		wr, ok := ws.Pop()
		if ok && wr.write == nil {
			t.Errorf("Pop #%d after CloseStream returned ok=true with an empty request: %#v", i+1, wr)
		} else if ok {
			t.Errorf("Pop #%d after CloseStream returned a frame of the closed stream: %v", i+1, wr)
		}
	}
}
