// Stand-alone reproductions for the C41 findings on the unchanged tree.
// Overlay into the package directory /repo/html (package html), e.g.
//   echo '{"Replace":{"/repo/html/zz_c41_repro_test.go":"/verif/findings/C41_fragment_panics_and_render_test.go"}}' > /tmp/ov.json
//   cd /repo && /verif/tools/go.sh test -overlay /tmp/ov.json -vet=off -run TestC41 -v ./html/
//
// parser.parse recovers panics and returns them as errors, so every error
// below is an internal panic on a tiny, reader-error-free input.
//
// A  ParseFragment(r, nil) dereferences the nil context for <select>/<input>
//    (inBodyIM: `p.fragment && p.context.DataAtom == a.Select`).
//    signature .../nil-pointer-derefer/ctx=nil
// B  context <head>: resetInsertionMode selects inHeadIM although no head
//    element is on the stack (only the synthetic <html> root). inHeadIM's
//    `p.oe.pop()` for </head> (also implied by </body>, </html>, <frameset> ...)
//    then pops the root and empties the stack; later tokens hit p.oe[0], a nil
//    p.top()-derived node, the afterBodyIM assertion or the inHeadNoscriptIM
//    assertion.   signatures .../ctx=head (4 error classes)
// C  foreign (svg/math namespace) context: parseForeignContent's end-tag loop
//    matches </html> against the synthetic root and sets p.oe = p.oe[:0].
//    signatures .../ctx=foreign (2 error classes)
// D  Render rejects a tree that Parse returned: void-element names are not
//    void in foreign content, so <svg><input>x gives svg:input a child and
//    render1's voidElements check (which ignores the namespace) fails.
//    signature C41/render/error:html--void-element--has-child-nodes
package html

import (
	"io"
	"strings"
	"testing"

	"golang.org/x/net/html/atom"
)

func TestC41FragmentPanics(t *testing.T) {
	el := func(a atom.Atom, ns string) *Node {
		return &Node{Type: ElementNode, DataAtom: a, Data: a.String(), Namespace: ns}
	}
	for _, tc := range []struct {
		name      string
		ctx       *Node
		scripting bool
		in        string
	}{
		{"A nil context, <select>", nil, true, "<select>"},
		{"A nil context, <input>", nil, true, "<input>"},
		{"B head context, </body> then comment", el(atom.Head, ""), true, "</body><!--c-->"},
		{"B head context, </head><html>", el(atom.Head, ""), true, "</head><html>"},
		{"B head context, <frameset></frameset>", el(atom.Head, ""), true, "<frameset></frameset>"},
		{"B head context, </head><template>", el(atom.Head, ""), true, "</head><template>"},
		{"B head context, scripting off, <noscript>", el(atom.Head, ""), false, "<noscript>"},
		{"C svg context, </html>x", el(atom.Svg, "svg"), true, "</html>x"},
		{"C svg context, </html><html>", el(atom.Svg, "svg"), true, "</html><html>"},
		{"C math context, </html></a>", el(atom.Math, "math"), true, "</html></a>"},
	} {
		_, err := ParseFragmentWithOptions(strings.NewReader(tc.in), tc.ctx, ParseOptionEnableScripting(tc.scripting))
		if err != nil {
			t.Errorf("%s: ParseFragment(%q) returned error (recovered panic): %v", tc.name, tc.in, err)
		}
	}
}

func TestC41RenderOfParsedTree(t *testing.T) {
	for _, in := range []string{"<svg><input>x", "<svg><col><a>", "<math><keygen>x"} {
		doc, err := Parse(strings.NewReader(in))
		if err != nil {
			t.Fatalf("Parse(%q): %v", in, err)
		}
		if err := Render(io.Discard, doc); err != nil {
			t.Errorf("D Render(Parse(%q)) failed: %v", in, err)
		}
	}
}
