// Stand-alone reproduction (plain Go test, no vx) of
//
//	C47/set/propfind/value-differs/unqualified-element/other-ns-name
//
// Overlay into the package directory /repo/webdav (package webdav), e.g.
//
//	cp C47_unqualified_child_element_test.go <scratch>/webdav/zz_c47_unq_test.go
//	cd <scratch> && /verif/tools/go.sh test -vet=off -run TestC47UnqualifiedChildElement ./webdav/
//
// A dead property whose name is in a namespace (other than DAV:) and whose
// value holds an element WITHOUT a namespace, e.g.
//
//	<p:a xmlns:p="http://ns.example/"><i>nested</i></p:a>
//
// is stored with InnerXML `<i>nested</i>` and returned by PROPFIND as
//
//	<a xmlns="http://ns.example/"><i>nested</i></a>
//
// The response writer declares the property's namespace as the DEFAULT
// namespace on the property element and then copies the stored inner XML
// verbatim, so the unqualified child <i> is captured by that declaration: the
// client sent {}i and gets {http://ns.example/}i back. RFC 4918 §4.3 requires
// the [namespace name] of every element information item in a property value
// to be preserved. (Properties without a namespace or in DAV: are written
// without a default-namespace declaration and are not affected; qualified
// children are re-declared by xmlValue.UnmarshalXML and are not affected.)
//
// No one-line fix is known. Adding an explicit `xmlns=""` attribute to
// unqualified start elements in xmlValue.UnmarshalXML does not work as is,
// because the internal encoder drops an empty default-namespace declaration
// when no default namespace is in scope at encoding time. Options: make the
// encoder keep it, or write dead-property elements with a generated prefix
// (<ns1:a xmlns:ns1="...">) instead of a default-namespace declaration.
package webdav

import (
	"context"
	"encoding/xml"
	"net/http/httptest"
	"os"
	"strings"
	"testing"
)

func TestC47UnqualifiedChildElement(t *testing.T) {
	fs := NewMemFS()
	f, err := fs.OpenFile(context.Background(), "/f", os.O_RDWR|os.O_CREATE, 0666)
	if err != nil {
		t.Fatal(err)
	}
	f.Close()
	h := &Handler{FileSystem: fs, LockSystem: NewMemLS()}
	do := func(method, body string) string {
		req := httptest.NewRequest(method, "http://example.com/f", strings.NewReader(body))
		req.Header.Set("Depth", "0")
		rec := httptest.NewRecorder()
		h.ServeHTTP(rec, req)
		if rec.Code != 207 {
			t.Fatalf("%s: status %d: %s", method, rec.Code, rec.Body)
		}
		return rec.Body.String()
	}
	do("PROPPATCH", `<D:propertyupdate xmlns:D="DAV:"><D:set><D:prop>`+
		`<p:a xmlns:p="http://ns.example/"><i>nested</i></p:a>`+
		`</D:prop></D:set></D:propertyupdate>`)
	resp := do("PROPFIND", `<D:propfind xmlns:D="DAV:"><D:prop><a xmlns="http://ns.example/"/></D:prop></D:propfind>`)

	// Find the child element named "i" with the standard library's decoder and
	// look at the namespace it is in.
	d := xml.NewDecoder(strings.NewReader(resp))
	for {
		tok, err := d.Token()
		if err != nil {
			t.Fatalf("no <i> element in the response: %v\n%s", err, resp)
		}
		if se, ok := tok.(xml.StartElement); ok && se.Name.Local == "i" {
			if se.Name.Space != "" {
				t.Errorf("the client stored an element i without namespace; PROPFIND returns it in namespace %q:\n%s", se.Name.Space, resp)
			}
			return
		}
	}
}
