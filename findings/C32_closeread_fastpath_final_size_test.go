// Stand-alone reproduction for finding
//   C32/recv/consistent-frame-rejected
// (minimal case found by ./check C32 thorough:
//  {"side":"server","kind":"uni","ops":["d+","rd1","rd1","cr","rd","f@0"]})
//
// Overlay (or copy) this file into the package directory /repo/quic
// (package quic, it uses the package's own testConn helpers):
//
//   cd /repo && go test -overlay <(echo '{"Replace":{"/repo/quic/zz_c32_finding_test.go":"/verif/findings/C32_closeread_fastpath_final_size_test.go"}}') \
//       -vet=off -run TestFindingC32CloseReadFastPath ./quic/
//
// What it shows: the peer sends 2 bytes; the application reads them one byte at
// a time (the second byte comes from the lock-free s.inbuf fast path, which
// only advances s.inbufoff), calls CloseRead, and calls Read once more (as a
// reader goroutine that CloseRead is documented to unblock would). CloseRead
// already discarded the pipe up to s.in.end, but Read's slow path then
// "discards bytes consumed by the fast path" again:
// s.in.discardBefore(s.in.start + s.inbufoff) moves in.start AND in.end to 3,
// one past everything the peer ever sent. When the peer's perfectly consistent
// FIN at offset 2 arrives (it may well be in flight before STOP_SENDING is
// processed), checkStreamBounds sees fin && end < s.in.end and the conn kills
// the whole connection with FINAL_SIZE_ERROR.
//
// Suggested minimal fix: in Stream.CloseRead, drop the fast-path buffer under
// inbufmu (s.inbuf = nil; s.inbufoff = 0) before/after discarding the pipe, so
// that a later Read has nothing left to discard.
package quic

import (
	"testing"
	"testing/synctest"
)

func TestFindingC32CloseReadFastPath(t *testing.T) {
	synctest.Test(t, func(t *testing.T) {
		tc, s := newTestConnAndRemoteStream(t, serverSide, uniStream, permissiveTransportParameters)
		tc.ignoreFrame(frameTypeStopSending)
		tc.ignoreFrame(frameTypeMaxData)
		tc.ignoreFrame(frameTypeMaxStreamData)
		tc.writeFrames(packetType1RTT, debugFrameStream{id: s.id, data: []byte{1, 2}})
		b := make([]byte, 1)
		if n, err := s.Read(b); n != 1 || err != nil { // slow path; the second byte moves to s.inbuf
			t.Fatalf("Read = %v, %v", n, err)
		}
		if n, err := s.Read(b); n != 1 || err != nil { // fast path
			t.Fatalf("Read = %v, %v", n, err)
		}
		s.CloseRead()
		s.Read(b) // returns "read from closed stream", but first discards inbufoff bytes once more
		// A FIN at the offset the peer really reached: consistent with everything it sent.
		tc.writeFrames(packetType1RTT, debugFrameStream{id: s.id, off: 2, fin: true})
		if f, _ := tc.readFrame(); f != nil {
			t.Errorf("consistent FIN at offset 2 after 2 bytes of data: conn sent %v, want nothing", f)
		}
	})
}
