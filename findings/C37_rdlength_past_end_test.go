// Stand-alone reproduction for C37 signature
//   C37/skip-vs-parse/parse-accepts-skip-rejects/resource/record-end-beyond-message
//
// Overlay (or copy) into /repo/dns/dnsmessage (package dnsmessage, white-box
// because it reads Parser.off), e.g.
//   echo '{"Replace":{"/repo/dns/dnsmessage/zz_c37a_test.go":"/verif/findings/C37_rdlength_past_end_test.go"}}' > /tmp/o.json
//   cd /repo && /verif/tools/go.sh test -overlay /tmp/o.json -vet=off -run TestFindingC37RDLengthPastEnd ./dns/dnsmessage/
//
// The test FAILS on the pinned tree: for record types whose RDATA is decoded
// without looking at RDLENGTH (A, AAAA, NS, CNAME, PTR, MX, SOA, SRV) the parse
// methods (Answer, AResource, ..., hence Message.Unpack) accept a record whose
// RDLENGTH runs past the end of the message and leave the parser offset beyond
// len(msg); SkipAnswer (and AnswerHeader+SkipAnswer) reject the same record
// with errResourceLen. Parse and Skip therefore do not "advance to the same
// position".
//
// Suggested minimal fix: in unpackResourceBody (and the typed Parser.XResource
// methods) return errResourceLen when off+int(hdr.Length) > len(msg), as
// skipResource already does.
package dnsmessage

import "testing"

func TestFindingC37RDLengthPastEnd(t *testing.T) {
	msg := []byte{
		0, 1, 0x81, 0x80, 0, 0, 0, 1, 0, 0, 0, 0, // header: ANCOUNT = 1
		0,          // owner name: root
		0, 1, 0, 1, // TYPE A, CLASS IN
		0, 0, 0, 60, // TTL
		0, 5, // RDLENGTH = 5 ...
		1, 2, 3, 4, // ... but only 4 bytes of RDATA follow
	}
	var m Message
	unpackErr := m.Unpack(msg)

	var p Parser
	if _, err := p.Start(msg); err != nil {
		t.Fatal(err)
	}
	if err := p.SkipAllQuestions(); err != nil {
		t.Fatal(err)
	}
	skipper := p // Parser is documented as safe to copy
	_, parseErr := p.Answer()
	skipErr := skipper.SkipAnswer()

	t.Logf("Unpack: %v; Answer(): %v, offset %d (len(msg) = %d); SkipAnswer(): %v, offset %d",
		unpackErr, parseErr, p.off, len(msg), skipErr, skipper.off)
	if parseErr == nil && skipErr != nil {
		t.Errorf("Answer() accepts the record and moves to offset %d (beyond the %d-byte message), SkipAnswer() rejects it: %v", p.off, len(msg), skipErr)
	}
	if parseErr == nil && p.off > len(msg) {
		t.Errorf("parser offset %d is beyond the end of the message (%d)", p.off, len(msg))
	}
	if unpackErr == nil {
		t.Errorf("Message.Unpack accepts a message whose last record's RDLENGTH runs past the end of the message")
	}
}
