// Stand-alone reproduction for the C14 findings
//   C14/exchange-fails/request-data-sent-before-server-settings-exceeds-advertised-smaller-window
//   C14/exchange-fails/request-header-block-sent-before-server-settings-vs-smaller-server-header-table
// (a failure is filed under these only if the case is in the situation AND the server's
// RST_STREAM(FLOW_CONTROL_ERROR) resp. GOAWAY(COMPRESSION_ERROR) is on the wire)
//
// Overlay into /repo/http2 (package http2), e.g.
//   cd /repo && go test -overlay <overlay mapping http2/zz_c14_finding_test.go to this file> \
//        -vet=off -run TestC14Finding ./http2/
//
// A real http2.Transport connection sends its first request without waiting
// for the server's SETTINGS frame (it may: until then the protocol defaults
// apply, RFC 9113 6.5.3/6.9.3 and RFC 7541 4.2: a reduced
// SETTINGS_INITIAL_WINDOW_SIZE / SETTINGS_HEADER_TABLE_SIZE binds the peer
// only once it has received and acknowledged it, "the receiver MUST be
// prepared to receive data that exceeds this window size"). A real
// http2.Server configured with MaxUploadBufferPerStream < 65535 or
// MaxDecoderHeaderTableSize < 4096 enforces the reduced values from the first
// byte: the exchange fails with FLOW_CONTROL_ERROR resp. COMPRESSION_ERROR
// although both endpoints are configured validly.
package http2

import (
	"bytes"
	"io"
	"net"
	"net/http"
	"sync"
	"testing"
	"testing/synctest"
	"time"
)

type c14fHalf struct {
	mu     sync.Mutex
	cond   *sync.Cond
	buf    bytes.Buffer
	closed bool
}

func newC14fHalf() *c14fHalf { h := &c14fHalf{}; h.cond = sync.NewCond(&h.mu); return h }

type c14fConn struct{ in, out *c14fHalf }

func (c *c14fConn) Read(p []byte) (int, error) {
	c.in.mu.Lock()
	defer c.in.mu.Unlock()
	for c.in.buf.Len() == 0 && !c.in.closed {
		c.in.cond.Wait()
	}
	if c.in.buf.Len() == 0 {
		return 0, io.EOF
	}
	return c.in.buf.Read(p)
}
func (c *c14fConn) Write(p []byte) (int, error) {
	c.out.mu.Lock()
	defer c.out.mu.Unlock()
	if c.out.closed {
		return 0, io.ErrClosedPipe
	}
	c.out.buf.Write(p)
	c.out.cond.Broadcast()
	return len(p), nil
}
func (c *c14fConn) Close() error {
	for _, h := range []*c14fHalf{c.in, c.out} {
		h.mu.Lock()
		h.closed = true
		h.cond.Broadcast()
		h.mu.Unlock()
	}
	return nil
}
func (c *c14fConn) LocalAddr() net.Addr              { return &net.TCPAddr{} }
func (c *c14fConn) RemoteAddr() net.Addr             { return &net.TCPAddr{} }
func (c *c14fConn) SetDeadline(time.Time) error      { return nil }
func (c *c14fConn) SetReadDeadline(time.Time) error  { return nil }
func (c *c14fConn) SetWriteDeadline(time.Time) error { return nil }

func c14fExchange(t *testing.T, srv *Server, tr *Transport, waitForSettings bool, hdr http.Header, body []byte) error {
	a, b := newC14fHalf(), newC14fHalf()
	cli, sc := &c14fConn{in: a, out: b}, &c14fConn{in: b, out: a}
	h1 := &http.Server{}
	ConfigureServer(h1, srv)
	done := make(chan struct{})
	var got []byte
	go func() {
		defer close(done)
		srv.ServeConn(sc, &ServeConnOpts{BaseConfig: h1, Handler: http.HandlerFunc(func(w http.ResponseWriter, r *http.Request) {
			got, _ = io.ReadAll(r.Body)
		})})
	}()
	cc, err := tr.NewClientConn(cli)
	if err != nil {
		t.Fatal(err)
	}
	if waitForSettings {
		synctest.Wait()
	}
	req, _ := http.NewRequest("POST", "https://example.com/", bytes.NewReader(body))
	for k, v := range hdr {
		req.Header[k] = v
	}
	res, err := cc.RoundTrip(req)
	if err == nil {
		res.Body.Close()
		synctest.Wait()
		if !bytes.Equal(got, body) {
			t.Errorf("handler read %d bytes, sent %d", len(got), len(body))
		}
	}
	cc.Close()
	cli.Close()
	<-done
	return err
}

func c14fSub(t *testing.T, name string, wait bool, f func(t *testing.T)) {
	if wait {
		name += "/client-waits-for-settings"
	} else {
		name += "/client-sends-at-once"
	}
	t.Run(name, func(t *testing.T) { synctest.Test(t, f) })
}

func TestC14FindingSmallStreamWindow(t *testing.T) {
	prev := disableDebugGoroutines.Load()
	disableDebugGoroutines.Store(true)
	defer disableDebugGoroutines.Store(prev)
	for _, wait := range []bool{true, false} {
		c14fSub(t, "window100", wait, func(t *testing.T) {
			err := c14fExchange(t, &Server{MaxUploadBufferPerStream: 100}, &Transport{}, wait, nil, make([]byte, 1000))
			t.Logf("client waited for the server's SETTINGS: %v -> RoundTrip error: %v", wait, err)
			if err != nil {
				t.Errorf("POST of 1000 bytes to a server with MaxUploadBufferPerStream=100 failed (waited=%v): %v", wait, err)
			}
		})
	}
}

func TestC14FindingSmallHeaderTable(t *testing.T) {
	prev := disableDebugGoroutines.Load()
	disableDebugGoroutines.Store(true)
	defer disableDebugGoroutines.Store(prev)
	for _, wait := range []bool{true, false} {
		c14fSub(t, "table1-client-encoder64", wait, func(t *testing.T) {
			// the client's encoder is limited to 64 bytes and says so in a dynamic
			// table size update (64 <= 4096, the limit in force until the server's
			// SETTINGS_HEADER_TABLE_SIZE=1 has been received and acknowledged)
			err := c14fExchange(t, &Server{MaxDecoderHeaderTableSize: 1}, &Transport{MaxEncoderHeaderTableSize: 64}, wait, nil, []byte("x"))
			t.Logf("client waited for the server's SETTINGS: %v -> RoundTrip error: %v", wait, err)
			if err != nil {
				t.Errorf("request to a server with MaxDecoderHeaderTableSize=1 failed (waited=%v): %v", wait, err)
			}
		})
		c14fSub(t, "table64-repeated-field", wait, func(t *testing.T) {
			// default client (4096-byte table) reusing a field inside one header block
			hdr := http.Header{"X-R": {"a", "b", "a"}}
			err := c14fExchange(t, &Server{MaxDecoderHeaderTableSize: 64}, &Transport{}, wait, hdr, []byte("x"))
			t.Logf("client waited for the server's SETTINGS: %v -> RoundTrip error: %v", wait, err)
			if err != nil {
				t.Errorf("request with a repeated field to a server with MaxDecoderHeaderTableSize=64 failed (waited=%v): %v", wait, err)
			}
		})
	}
}
