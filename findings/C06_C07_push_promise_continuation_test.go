// Stand-alone reproduction (plain Go test, no vx) for
//
//	C06/train:PUSH_PROMISE+CONTINUATION/read-error
//	C07/order/open-push-promise-block/non-continuation-accepted
//
// Overlay into package directory http2 (package http2_test, black box), e.g.
//
//	cd /repo && /verif/tools/go.sh test -vet=off -run 'TestFinding_PushPromise' \
//	    -overlay <(echo '{"Replace":{"/repo/http2/zz_finding_test.go":"/verif/findings/C06_C07_push_promise_continuation_test.go"}}') ./http2/
//
// Framer.checkFrameOrder only records an open header block for HEADERS and
// CONTINUATION frames. A PUSH_PROMISE without END_HEADERS does not open one, so
// with a default (strict) Framer
//
//	(a) the legal train PUSH_PROMISE(no END_HEADERS) + CONTINUATION(END_HEADERS),
//	    which Framer.WritePushPromise/WriteContinuation produce (and which the
//	    package's own server emits for large pushed header blocks, see
//	    writePushPromise/splitHeaderBlock), cannot be read back: ReadFrame fails
//	    with PROTOCOL_ERROR "unexpected CONTINUATION for stream 1";
//	(b) a DATA (or any other) frame interleaved after an unfinished PUSH_PROMISE
//	    is returned as a frame although RFC 9113 §4.3/§6.6 require a connection
//	    error ("A PUSH_PROMISE frame without the END_HEADERS flag set MUST be
//	    followed by a CONTINUATION frame for the same stream").
//
// Suggested minimal fix: in checkFrameOrder treat FramePushPromise like
// FrameHeaders in the final switch (`case FrameHeaders, FramePushPromise,
// FrameContinuation:`; all three use flag bit 0x4 for END_HEADERS).
package http2_test

import (
	"bytes"
	"testing"

	"golang.org/x/net/http2"
)

func TestFinding_PushPromiseContinuationRoundTrip(t *testing.T) {
	var buf bytes.Buffer
	fr := http2.NewFramer(&buf, &buf)
	if err := fr.WritePushPromise(http2.PushPromiseParam{StreamID: 1, PromiseID: 2, BlockFragment: []byte{0x82}, EndHeaders: false}); err != nil {
		t.Fatal(err)
	}
	if err := fr.WriteContinuation(1, true, []byte{0x84}); err != nil {
		t.Fatal(err)
	}
	f, err := fr.ReadFrame()
	if err != nil {
		t.Fatalf("PUSH_PROMISE: %v", err)
	}
	if _, ok := f.(*http2.PushPromiseFrame); !ok {
		t.Fatalf("got %T", f)
	}
	f, err = fr.ReadFrame()
	if err != nil {
		t.Errorf("(a) CONTINUATION after PUSH_PROMISE without END_HEADERS: ReadFrame = %v (%v); want the ContinuationFrame", err, fr.ErrorDetail())
	} else if _, ok := f.(*http2.ContinuationFrame); !ok {
		t.Errorf("got %T", f)
	}
}

func TestFinding_PushPromiseOpenBlockInterleaving(t *testing.T) {
	var buf bytes.Buffer
	fr := http2.NewFramer(&buf, &buf)
	if err := fr.WritePushPromise(http2.PushPromiseParam{StreamID: 1, PromiseID: 2, BlockFragment: []byte{0x82}, EndHeaders: false}); err != nil {
		t.Fatal(err)
	}
	if err := fr.WriteData(1, false, []byte("x")); err != nil {
		t.Fatal(err)
	}
	if _, err := fr.ReadFrame(); err != nil {
		t.Fatalf("PUSH_PROMISE: %v", err)
	}
	if f, err := fr.ReadFrame(); err == nil {
		t.Errorf("(b) DATA inside an unfinished PUSH_PROMISE header block was returned as %T; want a connection error (RFC 9113 §6.6)", f)
	}
}
