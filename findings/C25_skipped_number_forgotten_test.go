// Stand-alone reproduction for C25 (signature
// C25/peer-ack/skipped-number-accepted/after-older-packets-acked).
//
// Overlay into the package directory /repo/quic (package quic, white-box), e.g.
//
//	echo '{"Replace":{"/repo/quic/zz_c25_repro_test.go":"/verif/findings/C25_skipped_number_forgotten_test.go"}}' > /tmp/ov.json
//	cd /repo && /verif/tools/go.sh test -overlay /tmp/ov.json -vet=off -run 'TestC25SkippedNumberForgotten' ./quic/
//
// What it shows: a packet number skipped as optimistic-ACK defence
// (lossState.skipNumber) is kept only as a sentPacketUnsent entry of the
// sent-packet list. sentPacketList.clean() removes every entry at the head of
// the list whose state is not "sent" — including the skipped entry — as soon
// as all older packets are resolved (receiveAckEnd, detectLoss). From then on
// an ACK frame covering the skipped number is clipped to the list start in
// receiveAckRange and accepted silently. A peer that acknowledges packets one
// at a time, in order, can therefore acknowledge every skipped number without
// ever being caught; only an ACK that covers the skipped number while an older
// packet is still outstanding closes the connection (that is the only case
// skip_test.go exercises, see its comment "doing so will cause the connection
// to drop state for the skipped packet number").
//
// Property C25 as stated: "ACK frames received from the peer that acknowledge
// never-sent (or skipped) packet numbers close the connection with
// PROTOCOL_VIOLATION."
//
// Possible minimal fix: remember the most recent skipped number per space
// outside the list (e.g. lossState.spaces[space].lastSkipped) and refuse in
// receiveAckRange any range with start <= lastSkipped < end; or let clean()
// stop at a sentPacketUnsent entry until a higher-numbered packet has been
// acknowledged.
package quic

import (
	"testing"
	"testing/synctest"
	"time"
)

// Unit level: lossState alone.
func TestC25SkippedNumberForgottenLossState(t *testing.T) {
	now := time.Date(2001, 2, 3, 4, 5, 6, 0, time.UTC)
	var c lossState
	c.init(clientSide, 1200, now)
	nop := func(numberSpace, *sentPacket, packetFate) {}

	c.packetSent(now, nil, appDataSpace, &sentPacket{num: 0, size: 1200, ackEliciting: true, inFlight: true})
	c.skipNumber(now, appDataSpace) // number 1 is never sent
	c.packetSent(now, nil, appDataSpace, &sentPacket{num: 2, size: 1200, ackEliciting: true, inFlight: true})

	// The peer acknowledges packet 0 (valid).
	c.receiveAckStart()
	if err := c.receiveAckRange(now, appDataSpace, 0, 0, 1, nop); err != nil {
		t.Fatalf("valid ack refused: %v", err)
	}
	c.receiveAckEnd(now, nil, appDataSpace, 0, nop)

	// The peer acknowledges [1,3): number 1 was skipped.
	c.receiveAckStart()
	err := c.receiveAckRange(now, appDataSpace, 0, 1, 3, nop)
	c.receiveAckEnd(now, nil, appDataSpace, 0, nop)
	if err == nil {
		t.Errorf("ACK for [1,3) accepted although packet number 1 was skipped and never sent")
	}
}

// Connection level: the scripted peer of the package's own tests.
func TestC25SkippedNumberForgotten(t *testing.T) {
	synctest.Test(t, func(t *testing.T) {
		tc, s := newTestConnAndLocalStream(t, serverSide, uniStream, permissiveTransportParameters)
		tc.wantIdle("nothing pending after the handshake")

		// Make the conn skip the number right after its next packet.
		done := make(chan packetNumber)
		tc.conn.sendMsg(func(now time.Time, c *Conn) {
			next := c.loss.nextNumber(appDataSpace)
			c.skip.skip = next + 1
			done <- next
		})
		next := <-done

		s.WriteByte(0)
		s.Flush()
		tc.wantFrameType("conn sends STREAM data", packetType1RTT, debugFrameStream{})
		if tc.lastPacket.num != next {
			t.Fatalf("data packet has number %v, want %v", tc.lastPacket.num, next)
		}
		skipped := next + 1

		// Valid ACK for the data packet.
		tc.writeAckForLatest()
		tc.wantIdle("valid ack")

		// ACK for the skipped number alone.
		tc.writeFrames(packetType1RTT, debugFrameAck{
			ranges: []i64range[packetNumber]{{skipped, skipped + 1}},
		})
		tc.wantFrame("ACK for skipped packet number causes CONNECTION_CLOSE",
			packetType1RTT, debugFrameConnectionCloseTransport{
				code: errProtocolViolation,
			})
	})
}
