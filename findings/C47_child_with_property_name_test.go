// Stand-alone reproduction (plain Go test, no vx) of
//
//	C47/set/proppatch/well-formed-request-refused/child-with-the-property-name
//
// Overlay into the package directory /repo/webdav (package webdav), e.g.
//
//	cp C47_child_with_property_name_test.go <scratch>/webdav/zz_c47_same_test.go
//	cd <scratch> && /verif/tools/go.sh test -vet=off -run TestC47ChildWithPropertyName ./webdav/
//
// A PROPPATCH that sets a dead property whose value contains an element with
// the same expanded name as the property itself, e.g.
//
//	<a xmlns="urn:x"><a>x</a></a>
//
// is answered 400 Bad Request although the document is well-formed and valid
// WebDAV: the property cannot be stored at all. xmlValue.UnmarshalXML stops
// at the first end tag whose name equals the property's name, without
// counting nesting; the XML decoder then reports that UnmarshalXML "did not
// consume entire <a> element".
//
// Suggested minimal fix (xml.go, xmlValue.UnmarshalXML): count depth,
//
//		var b bytes.Buffer
//		e := ixml.NewEncoder(&b)
//	+	depth := 0
//		for {
//			t, err := next(d)
//			if err != nil {
//				return err
//			}
//	-		if e, ok := t.(ixml.EndElement); ok && e.Name == start.Name {
//	-			break
//	-		}
//	+		switch t.(type) {
//	+		case ixml.StartElement:
//	+			depth++
//	+		case ixml.EndElement:
//	+			if depth == 0 {
//	+				break loop   // label the for statement
//	+			}
//	+			depth--
//	+		}
//
// (verified in a scratch tree: the package's tests stay green and the check no
// longer reports this signature).
package webdav

import (
	"context"
	"net/http/httptest"
	"os"
	"strings"
	"testing"
)

func TestC47ChildWithPropertyName(t *testing.T) {
	fs := NewMemFS()
	f, err := fs.OpenFile(context.Background(), "/f", os.O_RDWR|os.O_CREATE, 0666)
	if err != nil {
		t.Fatal(err)
	}
	f.Close()
	h := &Handler{FileSystem: fs, LockSystem: NewMemLS()}
	req := httptest.NewRequest("PROPPATCH", "http://example.com/f", strings.NewReader(
		`<D:propertyupdate xmlns:D="DAV:"><D:set><D:prop>`+
			`<a xmlns="urn:x"><a>x</a></a>`+
			`</D:prop></D:set></D:propertyupdate>`))
	rec := httptest.NewRecorder()
	h.ServeHTTP(rec, req)
	if rec.Code != 207 {
		t.Errorf("PROPPATCH of a well-formed dead property answered %d %s, want 207", rec.Code, rec.Body)
	}
}
