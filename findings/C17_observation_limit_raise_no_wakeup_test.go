//go:build !(go1.27 && !http2legacy)

// OBSERVATION (not reported as a C17 violation: the property only states that
// excess requests wait; it makes no progress claim for a limit raised by
// SETTINGS).
//
// With StrictMaxConcurrentStreams a request that waits in
// ClientConn.awaitOpenSlotForStreamLocked is not woken when the server raises
// SETTINGS_MAX_CONCURRENT_STREAMS: processSettingsNoWrite updates
// cc.maxConcurrentStreams without cc.cond.Broadcast() (only the
// INITIAL_WINDOW_SIZE branch broadcasts). The waiter starts only when some
// other event broadcasts (a stream finishing, a cancellation, a PING ack).
//
// Overlay into /repo/http2 (package http2_test):
//   echo '{"Replace":{"/repo/http2/zz_c17_obs_test.go":"/verif/findings/C17_observation_limit_raise_no_wakeup_test.go"}}' > /tmp/scratch/ov.json
//   cd /repo && /verif/tools/go.sh test -overlay /tmp/scratch/ov.json -vet=off -run TestC17LimitRaiseDoesNotWakeWaiter -v ./http2/
package http2_test

import (
	"net/http"
	"testing"

	. "golang.org/x/net/http2"
)

func TestC17LimitRaiseDoesNotWakeWaiter(t *testing.T) {
	synctestTest(t, func(t testing.TB) {
		tc := newTestClientConn(t, func(tr *Transport) { tr.StrictMaxConcurrentStreams = true })
		tc.greet(Setting{ID: SettingMaxConcurrentStreams, Val: 1})
		req1, _ := http.NewRequest("GET", "https://dummy.tld/1", nil)
		tc.roundTrip(req1)
		tc.wantFrameType(FrameHeaders) // stream 1
		req2, _ := http.NewRequest("GET", "https://dummy.tld/2", nil)
		tc.roundTrip(req2) // must wait: limit 1
		tc.wantIdle()
		tc.writeSettings(Setting{ID: SettingMaxConcurrentStreams, Val: 2})
		tc.wantFrameType(FrameSettings) // the client's ack
		if f := tc.readFrame(); f == nil {
			t.Logf("OBSERVED: request 2 is still waiting although the limit in force is now 2 and one stream is open")
		} else {
			t.Logf("request 2 was started after the limit was raised: %v", SummarizeFrame(f))
		}
	})
}
