// Stand-alone reproduction (plain Go test, no vx) of the C44 finding
//
//	C44/Write/file-beyond-eof,empty/writable/tree-differs:content-length
//
// Overlay into package directory webdav (package webdav; exported API only):
//
//	echo '{"Replace":{"/repo/webdav/zz_c44_finding5_test.go":"/verif/findings/C44_empty_write_beyond_eof_test.go"}}' > /verif/.work/c44_f5.json
//	cd /repo && /verif/tools/go.sh test -overlay /verif/.work/c44_f5.json -vet=off -run TestC44Finding -v ./webdav/
//
// A zero-length write has no effect on a regular file (POSIX write(): "if
// nbyte is zero ... shall return zero and have no other results"; os.File
// behaves so). memFile.Write creates the hole up to the current offset before
// it looks at the length of p:
//
//	} else if f.pos > len(f.n.data) {
//		// Write permits the creation of holes, if we've seek'ed past the existing end of file.
//		...extends f.n.data to f.pos...
//	}
//	if len(p) > 0 { ...append... }
//
// so Seek(10, io.SeekStart) followed by Write(nil) grows an empty file to 10
// zero bytes (and bumps ModTime), where the native file keeps size 0.
//
// Minimal fix (package tests stay green, checked in a scratch tree):
//
//	} else if f.pos > len(f.n.data) && len(p) > 0 {
package webdav

import (
	"context"
	"io"
	"os"
	"testing"
)

func TestC44Finding_EmptyWriteBeyondEOF(t *testing.T) {
	ctx := context.Background()
	ref := Dir(t.TempDir())
	impl := NewMemFS()
	var size [2]int64
	for i, fs := range []FileSystem{ref, impl} {
		f, err := fs.OpenFile(ctx, "/f", os.O_RDWR|os.O_CREATE, 0666)
		if err != nil {
			t.Fatal(err)
		}
		if _, err := f.Seek(10, io.SeekStart); err != nil {
			t.Fatal(err)
		}
		if n, err := f.Write(nil); n != 0 || err != nil {
			t.Fatalf("Write(nil) = %d, %v", n, err)
		}
		f.Close()
		fi, err := fs.Stat(ctx, "/f")
		if err != nil {
			t.Fatal(err)
		}
		size[i] = fi.Size()
	}
	t.Logf("create, Seek(10, SeekStart), Write(nil): native size %d, memFS size %d", size[0], size[1])
	if size[0] != size[1] {
		t.Errorf("a zero-length Write changed the file: native size %d, memFS size %d", size[0], size[1])
	}
}
