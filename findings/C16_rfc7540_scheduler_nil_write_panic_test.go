//go:build !(go1.27 && !http2legacy)

// Stand-alone regression test for the C16 finding
//   C16/server-panic/http2.(*serverConn).startFrameWrite
// C16 rediscovered it by enumeration (minimal session: cfg 7540-hw-blk, items
// [H1, D1]) on the tree before /repo commit cff93e4 ("RFC 7540 scheduler must
// drop a closed stream's queue from the retained node"); that commit fixes it:
// this test FAILS on cff93e4^ and PASSES from cff93e4 on.
// (the server-level face of the C12 scheduler defect: after CloseStream on a
// stream that still has queued frames, the RFC 7540 priority scheduler's Pop
// returns ok=true with a zero FrameWriteRequest; serverConn.startFrameWrite then
// calls wr.write.staysWithinBuffer on a nil interface and the serve goroutine
// panics, which kills the whole process in production).
//
// Overlay into /repo/http2 (package http2_test):
//   echo '{"Replace":{"/repo/http2/zz_c16_repro_test.go":"/verif/findings/C16_rfc7540_scheduler_nil_write_panic_test.go"}}' > /tmp/scratch/ov.json
//   cd /repo && /verif/tools/go.sh test -overlay /tmp/scratch/ov.json -vet=off -run TestC16RFC7540SchedulerPanic ./http2/
//
// Client byte stream (only the opt-in, deprecated NewPriorityWriteScheduler is
// affected): preface, SETTINGS, then - while the client is not reading, so the
// server's writer is stuck - HEADERS(stream 1, END_STREAM) and DATA(stream 1,
// END_STREAM); then the client reads again.
package http2_test

import (
	"fmt"
	"net/http"
	"testing"
	"testing/synctest"

	. "golang.org/x/net/http2"
)

func TestC16RFC7540SchedulerPanic(t *testing.T) {
	synctestTest(t, func(t testing.TB) {
		var panicked any
		SetTestHookOnPanic(t, func(sc *ServerConn, e any) bool {
			panicked = e
			return false // swallow it: in production this panic terminates the process
		})
		st := newServerTester(t, func(w http.ResponseWriter, r *http.Request) {
			w.Write([]byte("hello"))
			w.(http.Flusher).Flush()
		}, func(s *Server) {
			s.NewWriteScheduler = func() WriteScheduler { return NewPriorityWriteScheduler(nil) }
		})
		st.writePreface()
		st.writeSettings()
		synctest.Wait()
		for st.readFrame() != nil { // server SETTINGS, WINDOW_UPDATE, SETTINGS ack
		}
		cli := st.cc.(*synctestNetConn)
		cli.SetReadBufferSize(1) // the client stops reading
		st.writeHeaders(HeadersFrameParam{StreamID: 1, BlockFragment: st.encodeHeader(), EndStream: true, EndHeaders: true})
		synctest.Wait()
		st.writeData(1, true, []byte("x")) // DATA on a half-closed (remote) stream: RST_STREAM(STREAM_CLOSED) is queued
		synctest.Wait()
		cli.SetReadBufferSize(1 << 30) // the client reads again
		synctest.Wait()
		if panicked != nil {
			t.Errorf("serve goroutine panicked: %v", fmt.Sprint(panicked))
		}
	})
}
