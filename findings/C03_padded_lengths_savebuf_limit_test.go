// Stand-alone reproduction of the C03 finding (split independence) on the
// pinned tree, reported by `./check C03 quick` (part max-string-length-boundary,
// padded sub-part) as
//
//	C03/outcome-differs/single-write-ok/padded-integers
//
// Overlay this file into /repo/http2/hpack (exported API only):
//
//	echo '{"Replace":{"/repo/http2/hpack/zz_c03_finding_test.go":"/verif/findings/C03_padded_lengths_savebuf_limit_test.go"}}' > /verif/.work/c03_finding_overlay.json
//	cd /repo && /verif/tools/go.sh test -overlay /verif/.work/c03_finding_overlay.json -vet=off -run TestC03FindingPaddedLengths -v ./http2/hpack/
//
// What happens. Decoder.Write's "last resort" bound on the unparsed tail kept
// in saveBuf is 2*(maxStrLen+8): it allows 8 octets of integer overhead per
// string. readVarInt accepts up to 10 octets for a 7-bit-prefix integer (prefix
// octet, 8 continuation octets with the high bit set, final octet), and a
// length >= 127 can be written in such a redundant form. With
// SetMaxStringLength(127) a literal with a new name whose 127-octet name and
// 127-octet value both carry a 10-octet length is 1+10+127+10+127 = 275 octets;
// one Write accepts it, but a Write boundary after 271..274 octets leaves more
// than 2*(127+8) = 270 octets pending and Write returns ErrStringLength. The
// same holds for every maxStrLen >= 127. Severity is low (a peer that pads
// its length integers and a max string length close to the actual strings).
// Candidate fix: `const varIntOverhead = 11` (10 octets per length integer plus
// the representation's first octet, rounded up): the longest pending tail of an
// acceptable literal is 1+10+n+10+n-1 = 2n+20 <= 2*(n+11). With it the check is
// quiet over the whole quick space and ./http2/hpack, ./http2 tests pass.
package hpack

import (
	"bytes"
	"testing"
)

func TestC03FindingPaddedLengths(t *testing.T) {
	pad := []byte{0x7f, 0x80, 0x80, 0x80, 0x80, 0x80, 0x80, 0x80, 0x80, 0x00} // 127, non-shortest form
	var blk []byte
	blk = append(blk, 0x40)
	blk = append(blk, pad...)
	blk = append(blk, bytes.Repeat([]byte("n"), 127)...)
	blk = append(blk, pad...)
	blk = append(blk, bytes.Repeat([]byte("v"), 127)...)
	run := func(chunks ...[]byte) (int, error) {
		n := 0
		d := NewDecoder(4096, func(HeaderField) { n++ })
		d.SetMaxStringLength(127)
		for _, c := range chunks {
			if _, err := d.Write(c); err != nil {
				return n, err
			}
		}
		return n, d.Close()
	}
	n, err := run(blk)
	if err != nil || n != 1 {
		t.Fatalf("single Write of %d octets: %d fields, err=%v", len(blk), n, err)
	}
	for cut := 1; cut < len(blk); cut++ {
		if n2, err2 := run(blk[:cut], blk[cut:]); n2 != n || err2 != nil {
			t.Errorf("single Write: 1 field, no error; split after %d of %d octets: %d fields, err=%v", cut, len(blk), n2, err2)
		}
	}
}
