// Stand-alone reproduction for finding C39/maxbuf/token-longer-than-limit:Comment.
//
// Overlay this file into the package directory /repo/html (package html), e.g.
//   echo '{"Replace":{"/repo/html/zz_c39_repro_test.go":"/verif/findings/C39_maxbuf_doctype_overrun_test.go"}}' > /tmp/ov.json
//   cd /repo && /verif/tools/go.sh test -overlay /tmp/ov.json -vet=off -run TestC39MaxBufDoctypeOverrun ./html/
//
// With SetMaxBuf(7) the input "<!DOCTYPE" hits the limit inside readDoctype
// (z.err = ErrBufferExceeded after "<!DOCTY"). readDoctype returns false and
// readMarkupDeclaration carries on into readUntilCloseAngle, which calls
// readByte although z.err != nil (readByte's documented pre-condition). One
// more byte is consumed and a CommentToken whose Raw() is 8 bytes long -- more
// than the configured limit -- is returned before the ErrorToken. With
// AllowCDATA(true) readCDATA is tried as well and the token grows to 9 bytes.
package html

import (
	"strings"
	"testing"
)

func TestC39MaxBufDoctypeOverrun(t *testing.T) {
	for _, cdata := range []bool{false, true} {
		z := NewTokenizer(strings.NewReader("<!DOCTYPE html>"))
		z.AllowCDATA(cdata)
		z.SetMaxBuf(7)
		for {
			tt := z.Next()
			if tt == ErrorToken {
				if z.Err() != ErrBufferExceeded {
					t.Errorf("cdata=%v: ended with %v, want ErrBufferExceeded", cdata, z.Err())
				}
				break
			}
			if n := len(z.Raw()); n > 7 {
				t.Errorf("cdata=%v: SetMaxBuf(7) but a %v token with %d raw bytes %q was returned", cdata, tt, n, z.Raw())
			}
		}
	}
}
