// Stand-alone reproductions for C56 (structured-field parsing vs RFC 9651 §4.2).
// Overlay into /repo/internal/httpsfv (package httpsfv), e.g.
//
//	cd /repo && go test -overlay <(echo '{"Replace":{"/repo/internal/httpsfv/zz_c56_repro_test.go":"/verif/findings/C56_rfc9651_deviations_test.go"}}') -vet=off -run TestC56Repro -v ./internal/httpsfv/
//
// Signatures of the check:
//
//	C56/accept/inner-list-unterminated@EOF              (TestC56ReproUnterminatedInnerList)
//	C56/accept/dict-member-not-followed-by-comma@other  (TestC56ReproDictionaryWithoutComma)
//	C56/accept/bare-item-unrecognized@HTAB, C56/accept/key-start@HTAB (TestC56ReproHTABTreatedAsSP)
//	C56/reject/displaystring-item                       (TestC56ReproReplacementCharacter)
package httpsfv

import "testing"

// RFC 9651 §4.2.1.2 step 4: "The end of the Inner List was not found; fail
// parsing." consumeBareInnerList returns ok=true when the input ends right
// after "(" (the loop body never runs and the function ends with a literal
// `true`). Suggested fix: track whether ")" was seen and return false
// otherwise.
func TestC56ReproUnterminatedInnerList(t *testing.T) {
	for _, in := range []string{"("} {
		if ParseBareInnerList(in, nil) {
			t.Errorf("ParseBareInnerList(%q) = true", in)
		}
	}
	if ParseList("a, (", nil) {
		t.Errorf(`ParseList("a, (") = true`)
	}
	if ParseDictionary("a=(", nil) {
		t.Errorf(`ParseDictionary("a=(") = true`)
	}
}

// RFC 9651 §4.2.2 step 2.8: "Consume the first character of input_string; if
// it is not ",", fail parsing." ParseDictionary only consumes a comma if one
// is there and otherwise carries on with the next key. Suggested fix: return
// false when s[0] != ','.
func TestC56ReproDictionaryWithoutComma(t *testing.T) {
	var keys []string
	ok := ParseDictionary("u=1 i", func(key, val, param string) { keys = append(keys, key) })
	if ok {
		t.Errorf(`ParseDictionary("u=1 i") = true with keys %q; members must be separated by ","`, keys)
	}
}

// RFC 9651 §4.2.1.2 step 3.1 and §4.2.3.2 step 2.3 discard SP only; the
// package uses countLeftWhitespace (SP and HTAB) in both places. Suggested
// fix: a SP-only variant for inner lists and parameters.
func TestC56ReproHTABTreatedAsSP(t *testing.T) {
	if ParseBareInnerList("(\ta)", nil) {
		t.Errorf(`ParseBareInnerList("(\ta)") = true`)
	}
	if ParseList("(a \t)", nil) {
		t.Errorf(`ParseList("(a \t)") = true`)
	}
	if ParseItem("a;\tb", nil) {
		t.Errorf(`ParseItem("a;\tb") = true`)
	}
}

// RFC 9651 §4.2.10 step 4.4.1 only requires the collected bytes to be valid
// UTF-8. U+FFFD (ef bf bd) is valid UTF-8, but consumeDisplayString compares
// the decoded rune with utf8.RuneError and therefore rejects it. Suggested
// fix: treat RuneError as an error only when the decoded size is 1.
func TestC56ReproReplacementCharacter(t *testing.T) {
	in := `%"%ef%bf%bd"`
	if got, ok := ParseDisplayString(in); !ok || got != "�" {
		t.Errorf("ParseDisplayString(%q) = %q, %v; want U+FFFD, true", in, got, ok)
	}
}
