// Stand-alone reproduction for finding
//   C20/recv/over-limit-not-rejected/connection/on-read-closed-stream
//
// Overlay (or copy) this file into the package directory /repo/quic
// (package quic, it uses the package's own testConn helpers):
//
//   cd /repo && go test -overlay <(echo '{"Replace":{"/repo/quic/zz_c20_finding_test.go":"/verif/findings/C20_conn_limit_after_closeread_test.go"}}') \
//       -vet=off -run TestFindingC20ConnLimitAfterCloseRead ./quic/
//
// What it shows: the conn advertises MAX_DATA = 150 and MAX_STREAM_DATA = 100.
// The peer sends 80 bytes on stream 1, the application calls CloseRead on
// stream 0, then the peer sends 100 bytes on stream 0 (within that stream's
// limit). The peer has now sent 180 bytes > MAX_DATA 150, and RFC 9000 4.1
// requires FLOW_CONTROL_ERROR, but Stream.handleData returns early for a
// read-closed stream before Conn.handleStreamBytesReceived is called, so the
// bytes are never counted and the connection stays open. (The same frame
// without the CloseRead is rejected.)
package quic

import (
	"testing"
	"testing/synctest"
)

func TestFindingC20ConnLimitAfterCloseRead(t *testing.T) {
	for _, closeRead := range []bool{false, true} {
		name := "without_CloseRead"
		if closeRead {
			name = "with_CloseRead"
		}
		t.Run(name, func(t *testing.T) {
			synctest.Test(t, func(t *testing.T) {
				tc := newTestConn(t, serverSide, func(c *Config) {
					c.MaxStreamReadBufferSize = 100
					c.MaxConnReadBufferSize = 150
				})
				tc.handshake()
				tc.ignoreFrame(frameTypeAck)
				tc.ignoreFrame(frameTypeStopSending)
				id0 := newStreamID(clientSide, uniStream, 0)
				id1 := newStreamID(clientSide, uniStream, 1)
				tc.writeFrames(packetType1RTT, debugFrameStream{id: id0})
				s0 := tc.acceptStream()
				tc.writeFrames(packetType1RTT, debugFrameStream{id: id1, data: make([]byte, 80)})
				tc.acceptStream()
				if closeRead {
					s0.CloseRead()
				}
				// 80 + 100 = 180 > MAX_DATA (150)
				tc.writeFrames(packetType1RTT, debugFrameStream{id: id0, data: make([]byte, 100)})
				f, _ := tc.readFrame()
				cc, ok := f.(debugFrameConnectionCloseTransport)
				if !ok || cc.code != errFlowControl {
					t.Errorf("peer exceeded MAX_DATA (180 > 150): got frame %v, want CONNECTION_CLOSE FLOW_CONTROL_ERROR", f)
				}
			})
		})
	}
}
